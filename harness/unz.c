/*
 * unz -- dumb "decompressed description" helper for the independent Lean image parser.
 *
 * Links zlib / liblzma / liblz4 / libzstd directly, NOT libsquashfs, and includes no header of /repo.
 * It interprets nothing beyond (a) the superblock offsets needed to find the regions, (b) the 2-byte
 * metadata block headers and (c) the u64 location lists (incl. the 16-byte xattr id-table header that
 * precedes the xattr location list).  All structure (inodes, listings, tables, ...) is decoded in Lean
 * (lean/Sqfs/Model/ImageParse.lean) from doc/format.adoc.
 *
 *   unz IMAGE                 describe the image (line protocol below) on stdout
 *   unz -b REQFILE IMAGE      additionally answer data block requests; REQFILE has lines
 *                             "blk <offset> <stored size> <c|u> <limit>" (as printed by `sqfsmodel c03 blockreq`)
 *   option -P                 with -b: include the unpacked payload (hex) of every requested block
 *
 * Output lines (all numbers decimal, payloads lower-case hex, "-" = empty):
 *   unz 1
 *   size <file size in bytes>
 *   super <hex of the first 96 bytes>             (fewer bytes if the file is shorter)
 *   tail <offset> <n> <z>                         bytes [offset,size) after bytes_used: n bytes, z of them zero
 *   region <name> <start> <end>                   a linear scan of metadata blocks from start, stopping at end
 *                                                 names: copt inode dir xattrkv
 *   locs <name> <offset> <count> <hex u64 list>   a location list; names: frag export id xattr
 *   xhdr <offset> <hex 16 bytes>                  xattr id table header (kv start, count, unused)
 *   m <name> <disk offset> <stored len> <c|u> <status> <unpacked payload hex>
 *                                                 one metadata block of region/table <name>;
 *                                                 status: ok | trunc (runs past end of file/region) | unpack-fail |
 *                                                 unpack-over (does not fit into 8 KiB) ; payload "-" unless ok
 *   d <offset> <stored> <c|u> <status> <unpacked length> <fnv1a64 of unpacked bytes> [<payload hex>]
 *                                                 answer to one "blk" request (only with -b)
 *   note <free text>                              diagnostics (e.g. unsupported compressor)
 *   end
 */
#include <stdio.h>
#include <stdlib.h>
#include <string.h>
#include <stdint.h>
#include <zlib.h>
#include <lzma.h>
#include <lz4.h>
#include <zstd.h>
#include <zstd_errors.h>

#define META 8192u
#define SLACK 64u
#define NOTBL 0xFFFFFFFFFFFFFFFFull

static unsigned char *img;
static uint64_t isz;
static unsigned comp_id;

static uint16_t rd16(uint64_t o) { return (uint16_t)(img[o] | (img[o + 1] << 8)); }
static uint32_t rd32(uint64_t o) { return (uint32_t)rd16(o) | ((uint32_t)rd16(o + 2) << 16); }
static uint64_t rd64(uint64_t o) { return (uint64_t)rd32(o) | ((uint64_t)rd32(o + 4) << 32); }

/* [off, off+n) lies inside the file (no wrap-around) */
static int inside(uint64_t off, uint64_t n) { return off <= isz && n <= isz - off; }

static void hex(const unsigned char *p, size_t n)
{
	static const char d[] = "0123456789abcdef";
	size_t i;
	if (n == 0) { putchar('-'); return; }
	for (i = 0; i < n; ++i) { putchar(d[p[i] >> 4]); putchar(d[p[i] & 15]); }
}

/* returns unpacked length, -1 on failure, -2 if the result does not fit into cap bytes */
static long unpack(const unsigned char *in, size_t n, unsigned char *out, size_t cap)
{
	switch (comp_id) {
	case 1: {
		uLongf dl = cap;
		int r = uncompress(out, &dl, in, n);
		if (r == Z_OK) return (long)dl;
		return r == Z_BUF_ERROR ? -2 : -1;
	}
	case 4: {
		uint64_t mem = UINT64_MAX; size_t ip = 0, op = 0;
		lzma_ret r = lzma_stream_buffer_decode(&mem, 0, NULL, in, &ip, n, out, &op, cap);
		if (r == LZMA_OK && ip == n) return (long)op;
		return r == LZMA_BUF_ERROR ? -2 : -1;
	}
	case 5: {
		int r = LZ4_decompress_safe((const char *)in, (char *)out, (int)n, (int)cap);
		if (r >= 0) return r;
		return -1;              /* lz4 does not distinguish overflow from damage */
	}
	case 6: {
		size_t r = ZSTD_decompress(out, cap, in, n);
		if (!ZSTD_isError(r)) return (long)r;
		return ZSTD_getErrorCode(r) == ZSTD_error_dstSize_tooSmall ? -2 : -1;
	}
	default:
		return -1;
	}
}

/* print one metadata block at disk offset off (must end <= limit); returns offset after it, 0 on trunc */
static uint64_t meta_block(const char *name, uint64_t off, uint64_t limit)
{
	static unsigned char buf[META + SLACK];
	uint16_t h;
	uint32_t len;
	int raw;
	if (!inside(off, 2) || limit < 2 || off > limit - 2) {
		printf("m %s %llu 0 u trunc -\n", name, (unsigned long long)off);
		return 0;
	}
	h = rd16(off);
	len = h & 0x7FFF;
	raw = (h & 0x8000) != 0;
	if (!inside(off, 2 + (uint64_t)len) || off + 2 + len > limit) {
		printf("m %s %llu %u %c trunc -\n", name, (unsigned long long)off, len, raw ? 'u' : 'c');
		return 0;
	}
	printf("m %s %llu %u %c ", name, (unsigned long long)off, len, raw ? 'u' : 'c');
	if (raw) {
		fputs("ok ", stdout); hex(img + off + 2, len); putchar('\n');
	} else {
		long r = unpack(img + off + 2, len, buf, sizeof(buf));
		if (r == -2 || r > (long)META) { fputs("unpack-over -\n", stdout); }
		else if (r < 0) { fputs("unpack-fail -\n", stdout); }
		else { fputs("ok ", stdout); hex(buf, (size_t)r); putchar('\n'); }
	}
	return off + 2 + len;
}

static void scan_region(const char *name, uint64_t start, uint64_t end)
{
	uint64_t off = start;
	printf("region %s %llu %llu\n", name, (unsigned long long)start, (unsigned long long)end);
	if (end > isz) end = isz;
	while (off != 0 && off < end)
		off = meta_block(name, off, end);
}

/* location list of `count` u64 at `off`; prints the list and each block it names */
static void loc_table(const char *name, uint64_t off, uint64_t count, uint64_t *minloc)
{
	uint64_t i, avail;
	if (off >= isz) { printf("locs %s %llu 0 -\n", name, (unsigned long long)off); return; }
	if (count > (1u << 24)) count = 1u << 24;          /* hostile counts: the list cannot be longer than the file anyway */
	avail = (isz - off) / 8;
	if (count > avail) { printf("note %s location list truncated: %llu of %llu entries inside the file\n", name,
				    (unsigned long long)avail, (unsigned long long)count); count = avail; }
	printf("locs %s %llu %llu ", name, (unsigned long long)off, (unsigned long long)count);
	hex(img + off, (size_t)(count * 8));
	putchar('\n');
	for (i = 0; i < count; ++i) {
		uint64_t l = rd64(off + 8 * i);
		if (l < *minloc) *minloc = l;
		meta_block(name, l, isz);
	}
}

static uint64_t ceil_div(uint64_t a, uint64_t b) { return (a + b - 1) / b; }

static uint64_t fnv(const unsigned char *p, size_t n)
{
	uint64_t h = 0xcbf29ce484222325ull; size_t i;
	for (i = 0; i < n; ++i) { h ^= p[i]; h *= 0x100000001b3ull; }
	return h;
}

static void answer_requests(const char *reqfile, int payload)
{
	FILE *f = fopen(reqfile, "r");
	char line[256];
	unsigned char *buf = NULL;
	size_t cap = 0;
	if (!f) { printf("note cannot open request file\n"); return; }
	while (fgets(line, sizeof(line), f)) {
		unsigned long long off, sz, lim; char c;
		if (sscanf(line, "blk %llu %llu %c %llu", &off, &sz, &c, &lim) != 4) continue;
		if (lim > (1u << 21)) lim = 1u << 21;
		if (lim + SLACK > cap) { cap = lim + SLACK; buf = realloc(buf, cap); if (!buf) abort(); }
		printf("d %llu %llu %c ", off, sz, c);
		if (off > isz || sz > isz - off) { printf("trunc 0 0\n"); continue; }
		if (c == 'u') {
			printf("ok %llu %016llx", sz, (unsigned long long)fnv(img + off, sz));
			if (payload) { putchar(' '); hex(img + off, sz); }
			putchar('\n');
		} else {
			long r = unpack(img + off, sz, buf, lim + SLACK);
			if (r == -2) printf("unpack-over 0 0\n");
			else if (r < 0) printf("unpack-fail 0 0\n");
			else {
				printf("ok %ld %016llx", r, (unsigned long long)fnv(buf, (size_t)r));
				if (payload) { putchar(' '); hex(buf, (size_t)r); }
				putchar('\n');
			}
		}
	}
	free(buf);
	fclose(f);
}

int main(int argc, char **argv)
{
	const char *reqfile = NULL, *path = NULL;
	int payload = 0, i;
	FILE *f;
	uint64_t id_tbl, xattr_tbl, inode_tbl, dir_tbl, frag_tbl, exp_tbl, bytes_used, minloc = NOTBL;
	uint32_t inode_count, frag_count;
	uint16_t flags, id_count;

	for (i = 1; i < argc; ++i) {
		if (!strcmp(argv[i], "-b") && i + 1 < argc) reqfile = argv[++i];
		else if (!strcmp(argv[i], "-P")) payload = 1;
		else path = argv[i];
	}
	if (!path) { fprintf(stderr, "usage: unz [-b REQFILE [-P]] IMAGE\n"); return 2; }
	f = fopen(path, "rb");
	if (!f) { perror(path); return 2; }
	fseek(f, 0, SEEK_END);
	isz = (uint64_t)ftell(f);
	fseek(f, 0, SEEK_SET);
	img = malloc(isz + 16);
	if (!img || fread(img, 1, isz, f) != isz) { fprintf(stderr, "read failed\n"); return 2; }
	memset(img + isz, 0, 16);
	fclose(f);

	if (reqfile) {                        /* second pass: only the block answers */
		if (isz >= 96) comp_id = rd16(20);
		answer_requests(reqfile, payload);
		puts("end");
		return 0;
	}

	puts("unz 1");
	printf("size %llu\n", (unsigned long long)isz);
	fputs("super ", stdout); hex(img, isz < 96 ? isz : 96); putchar('\n');
	if (isz < 96) { puts("end"); return 0; }

	inode_count = rd32(4); frag_count = rd32(16); comp_id = rd16(20); flags = rd16(24); id_count = rd16(26);
	bytes_used = rd64(40); id_tbl = rd64(48); xattr_tbl = rd64(56); inode_tbl = rd64(64); dir_tbl = rd64(72);
	frag_tbl = rd64(80); exp_tbl = rd64(88);
	if (comp_id != 1 && comp_id != 4 && comp_id != 5 && comp_id != 6)
		printf("note compressor id %u not supported by unz: compressed blocks are reported as unpack-fail\n", comp_id);

	if (bytes_used <= isz) {
		uint64_t z = 0, k;
		for (k = bytes_used; k < isz; ++k) z += img[k] == 0;
		printf("tail %llu %llu %llu\n", (unsigned long long)bytes_used, (unsigned long long)(isz - bytes_used), (unsigned long long)z);
	}
	if (flags & 0x0400) {
		printf("region copt 96 %llu\n", (unsigned long long)isz);
		meta_block("copt", 96, isz);          /* exactly one block */
	}

	/* lookup tables first (their first block bounds the directory table scan) */
	if (frag_tbl != NOTBL) loc_table("frag", frag_tbl, ceil_div((uint64_t)frag_count * 16, META), &minloc);
	if (exp_tbl != NOTBL) loc_table("export", exp_tbl, ceil_div((uint64_t)inode_count * 8, META), &minloc);
	if (id_tbl != NOTBL) loc_table("id", id_tbl, ceil_div((uint64_t)id_count * 4, META), &minloc);
	if (xattr_tbl != NOTBL && inside(xattr_tbl, 16)) {
		uint64_t kv = rd64(xattr_tbl), firstid = NOTBL;
		uint32_t cnt = rd32(xattr_tbl + 8);
		printf("xhdr %llu ", (unsigned long long)xattr_tbl); hex(img + xattr_tbl, 16); putchar('\n');
		loc_table("xattr", xattr_tbl + 16, ceil_div((uint64_t)cnt * 16, META), &firstid);
		if (firstid == NOTBL) firstid = xattr_tbl;
		if (kv < minloc) minloc = kv;
		scan_region("xattrkv", kv, firstid);
	} else if (xattr_tbl != NOTBL) {
		printf("note xattr id table header outside the file\n");
	}
	/* the tables' own start offsets bound the scan as well (a table with no block at all) */
	if (frag_tbl < minloc) minloc = frag_tbl;
	if (exp_tbl < minloc) minloc = exp_tbl;
	if (id_tbl < minloc) minloc = id_tbl;
	if (xattr_tbl < minloc) minloc = xattr_tbl;
	if (minloc > bytes_used) minloc = bytes_used;

	scan_region("inode", inode_tbl, dir_tbl);
	scan_region("dir", dir_tbl, minloc);
	puts("end");
	return 0;
}
