/*
 * C01 unit-level harness: the real libsquashfs writer/reader pairs on the same lines as `sqfsmodel c01`.
 * Linked against the working tree's library (ASan+UBSan).  All numbers decimal, byte strings hex ("-" = empty),
 * statuses are printed as -ret (the positive SQFS_ERROR_* number, 0 = success).
 *
 *   inode <block_size> <trailerhex> <inode description>
 *         sqfs_meta_writer_write_inode through a real meta writer (compressor that never shrinks, memory file),
 *         then sqfs_meta_reader_read_inode at reference (0,0) of what was written (+ trailer)
 *   mkext <stale> <desc> | mkextfix <stale> <desc>      sqfs_inode_make_extended (for FIFO/SOCKET the four bytes at
 *         data.ipc_ext.xattr_idx are set to <stale> first: that is what calloc/realloc hands out)
 *   mkbasic <desc>                                      sqfs_inode_make_basic
 *   setx <x> <desc>                                     sqfs_inode_set_xattr_index
 *   setsz <size> <desc> | setst <location> <desc>       sqfs_inode_set_file_size / sqfs_inode_set_file_block_start (64 bit)
 *   dirl <dpos> <xattr> <parent> <namehex/inum/ref/mode>...
 *         sqfs_dir_writer begin/add_entry/end/create_inode on a directory meta writer that already holds <dpos> bytes,
 *         then sqfs_readdir_state_init + sqfs_meta_reader_readdir (and sqfs_dir_reader_open_dir/read as a cross-check)
 *   meta <raw|toy> <p:n,...|-> <chunkhex>...
 *         appends + flush; sqfs_meta_reader_read of the whole run; for each p:n the writer-side reference of stream
 *         position p and a seek+read of n bytes there
 *   table <raw|toy> <pre> <datahex>                     sqfs_write_table after <pre> filler bytes, sqfs_read_table
 *   idtab <pre> <id>... | idrange <n>                   sqfs_id_table_id_to_index, _write, _read, _index_to_id
 *   idlimit <n0> <id>...                                table pre-loaded with n0 ids (sqfs_id_table_read), then id_to_index
 *   frag <pre> <start/size>...                          sqfs_frag_table_append, _write, _read, _lookup
 *   xattr <fix> <k=v,k=v|-> ...                         sqfs_xattr_writer begin/add_kv/end per set, flush, reader load,
 *         read_all of every distinct index (<fix> is only looked at by the model)
 *   xsets <fix> <n> <vlen>                              n generated one-pair sets (digest output)
 *   export <pre> <inum/ref>... <rootinum/rootref>       dir writer with SQFS_DIR_WRITER_CREATE_EXPORT_TABLE: add_entry per pair,
 *         sqfs_dir_writer_write_export_table, sqfs_read_table
 *   super <bs> <mtime> <comp> <inodes> <flags> <ids> <rootref> <bytes_used> <id> <xattr> <inode> <dir> <frag> <export>
 *         sqfs_super_init, fields set, sqfs_super_write, sqfs_super_read
 *   tree <pathhex|t|perm|uid|gid|mtime|xattr|extra>...
 *         fstree_init + fstree_add_generic per node (t: d f l h b c p s; h = hard link, extra = target path hex; l: target
 *         hex; b/c: devno; f: b:st:fi:fo:sz:words or x:st:sz:sp:fi:fo:words = the inode the block processor would have
 *         left), fstree_post_process, sqfs_serialize_fstree on real meta writers (never-shrinking compressor), then a walk
 *         from the root with sqfs_dir_reader_get_root_inode / open_dir / read / get_inode
 *   treeids <n0> <specs as for tree>...
 *         the same with the writer's id table already holding the ids 1000 .. 1000+n0-1 (the 65535 limit within reach)
 *
 * Inode description: see Driver/C01.lean.
 */
#include "config.h"
#include "sqfs/meta_writer.h"
#include "sqfs/meta_reader.h"
#include "sqfs/dir_writer.h"
#include "sqfs/dir_reader.h"
#include "sqfs/xattr_writer.h"
#include "sqfs/xattr_reader.h"
#include "sqfs/compressor.h"
#include "sqfs/id_table.h"
#include "sqfs/frag_table.h"
#include "sqfs/table.h"
#include "sqfs/inode.h"
#include "sqfs/super.h"
#include "sqfs/xattr.h"
#include "sqfs/error.h"
#include "sqfs/block.h"
#include "sqfs/dir.h"
#include "sqfs/io.h"
#include "fstree.h"
#include "common.h"
#include "simple_writer.h"
#include "hexio.h"

/* ------------------------------------------------------------------ memory file */
static unsigned char *mf_data;
static size_t mf_used, mf_cap;

static int mf_write_at(sqfs_file_t *f, sqfs_u64 off, const void *buf, size_t size)
{
	(void)f;
	if (off + size > mf_cap) {
		mf_cap = (off + size) * 2 + 4096;
		mf_data = realloc(mf_data, mf_cap);
		if (!mf_data) abort();
	}
	if (off > mf_used) memset(mf_data + mf_used, 0, off - mf_used);
	memcpy(mf_data + off, buf, size);
	if (off + size > mf_used) mf_used = off + size;
	return 0;
}
static int mf_read_at(sqfs_file_t *f, sqfs_u64 off, void *buf, size_t size)
{
	(void)f;
	if (off > mf_used || size > mf_used - off) return SQFS_ERROR_OUT_OF_BOUNDS;
	memcpy(buf, mf_data + off, size);
	return 0;
}
static sqfs_u64 mf_get_size(const sqfs_file_t *f) { (void)f; return mf_used; }
static sqfs_file_t memfile = { { 1, NULL, NULL }, mf_read_at, mf_write_at, mf_get_size, NULL, NULL };

static void mf_fill(size_t n) { unsigned char b = 0xEE; size_t i; mf_used = 0; for (i = 0; i < n; ++i) mf_write_at(&memfile, i, &b, 1); }

/* ------------------------------------------------------------------ codecs (mirrored in Driver/C01.lean) */
static sqfs_s32 raw_block(sqfs_compressor_t *c, const sqfs_u8 *in, sqfs_u32 size, sqfs_u8 *out, sqfs_u32 outsize)
{ (void)c; (void)in; (void)size; (void)out; (void)outsize; return 0; }
static sqfs_s32 fail_block(sqfs_compressor_t *c, const sqfs_u8 *in, sqfs_u32 size, sqfs_u8 *out, sqfs_u32 outsize)
{ (void)c; (void)in; (void)size; (void)out; (void)outsize; return SQFS_ERROR_COMPRESSOR; }
static sqfs_s32 toy_block(sqfs_compressor_t *c, const sqfs_u8 *in, sqfs_u32 size, sqfs_u8 *out, sqfs_u32 outsize)
{
	sqfs_u32 i;
	(void)c;
	if (size < 4 || outsize < 3) return 0;
	for (i = 1; i < size; ++i) if (in[i] != in[0]) return 0;
	out[0] = in[0]; out[1] = size & 0xFF; out[2] = (size >> 8) & 0xFF;
	return 3;
}
static sqfs_s32 toy_unblock(sqfs_compressor_t *c, const sqfs_u8 *in, sqfs_u32 size, sqfs_u8 *out, sqfs_u32 outsize)
{
	sqfs_u32 n;
	(void)c;
	if (size != 3) return SQFS_ERROR_COMPRESSOR;
	n = in[1] | ((sqfs_u32)in[2] << 8);
	if (n > outsize || n > 8192) return SQFS_ERROR_COMPRESSOR;
	memset(out, in[0], n);
	return (sqfs_s32)n;
}
static sqfs_compressor_t raw_cmp = { { 1, NULL, NULL }, NULL, NULL, NULL, raw_block };
static sqfs_compressor_t raw_unc = { { 1, NULL, NULL }, NULL, NULL, NULL, fail_block };
static sqfs_compressor_t toy_cmp = { { 1, NULL, NULL }, NULL, NULL, NULL, toy_block };
static sqfs_compressor_t toy_unc = { { 1, NULL, NULL }, NULL, NULL, NULL, toy_unblock };

static int codec_by_name(const char *n, sqfs_compressor_t **c, sqfs_compressor_t **u)
{
	if (!strcmp(n, "raw")) { *c = &raw_cmp; *u = &raw_unc; return 1; }
	if (!strcmp(n, "toy")) { *c = &toy_cmp; *u = &toy_unc; return 1; }
	return 0;
}

/* ------------------------------------------------------------------ helpers */
#define MAXTOK 300000
static char *toks[MAXTOK];
static size_t ntok;

static void split(char *line)
{
	char *p = strtok(line, " \n");
	ntok = 0;
	while (p && ntok < MAXTOK) { toks[ntok++] = p; p = strtok(NULL, " \n"); }
}
static unsigned long long num(const char *s) { return strtoull(s, NULL, 10); }

/* the uncompressed stream of the memory file [from, mf_used) made of raw (0x8000) metadata blocks */
static size_t strip_headers(size_t from, unsigned char *dst)
{
	size_t off = from, n = 0;
	while (off + 2 <= mf_used) {
		unsigned len = (mf_data[off] | (mf_data[off + 1] << 8)) & 0x7FFF;
		memcpy(dst + n, mf_data + off + 2, len);
		n += len; off += 2 + len;
	}
	return n;
}
static char *field(char **s, int sep)
{
	char *p = *s, *q;
	if (!p) return NULL;
	q = strchr(p, sep);
	if (q) { *q = 0; *s = q + 1; } else *s = NULL;
	return p;
}
static void append_fill(sqfs_meta_writer_t *m, size_t n)
{
	static unsigned char z[8192];
	while (n) { size_t k = n > sizeof(z) ? sizeof(z) : n; sqfs_meta_writer_append(m, z, k); n -= k; }
}

/* ------------------------------------------------------------------ inode descriptions */
static size_t count_list(const char *s, int sep) { size_t n = 1; if (!strcmp(s, "-")) return 0; for (; *s; ++s) if (*s == sep) ++n; return n; }

/* returns NULL on a malformed description; *used = tokens consumed */
static sqfs_inode_generic_t *parse_inode(char **t, size_t nt, size_t *used)
{
	sqfs_inode_generic_t *i;
	const char *k;
	size_t need, payload = 0, j;
	int ty;
	if (nt < 7) return NULL;
	k = t[0];
	if (!strcmp(k, "dir")) { ty = SQFS_INODE_DIR; need = 11; }
	else if (!strcmp(k, "file")) { ty = SQFS_INODE_FILE; need = 11; }
	else if (!strcmp(k, "slink")) { ty = SQFS_INODE_SLINK; need = 9; }
	else if (!strcmp(k, "bdev")) { ty = SQFS_INODE_BDEV; need = 8; }
	else if (!strcmp(k, "cdev")) { ty = SQFS_INODE_CDEV; need = 8; }
	else if (!strcmp(k, "fifo")) { ty = SQFS_INODE_FIFO; need = 7; }
	else if (!strcmp(k, "sock")) { ty = SQFS_INODE_SOCKET; need = 7; }
	else if (!strcmp(k, "xdir")) { ty = SQFS_INODE_EXT_DIR; need = 14; }
	else if (!strcmp(k, "xfile")) { ty = SQFS_INODE_EXT_FILE; need = 14; }
	else if (!strcmp(k, "xslink")) { ty = SQFS_INODE_EXT_SLINK; need = 10; }
	else if (!strcmp(k, "xbdev")) { ty = SQFS_INODE_EXT_BDEV; need = 9; }
	else if (!strcmp(k, "xcdev")) { ty = SQFS_INODE_EXT_CDEV; need = 9; }
	else if (!strcmp(k, "xfifo")) { ty = SQFS_INODE_EXT_FIFO; need = 8; }
	else if (!strcmp(k, "xsock")) { ty = SQFS_INODE_EXT_SOCKET; need = 8; }
	else return NULL;
	if (nt < need) return NULL;
	*used = need;
	if (ty == SQFS_INODE_FILE) payload = 4 * count_list(t[10], ',');
	if (ty == SQFS_INODE_EXT_FILE) payload = 4 * count_list(t[13], ',');
	if (ty == SQFS_INODE_SLINK || ty == SQFS_INODE_EXT_SLINK) payload = strcmp(t[8], "-") ? strlen(t[8]) / 2 : 0;
	if (ty == SQFS_INODE_EXT_DIR) payload = strlen(t[13]);      /* upper bound */
	i = calloc(1, sizeof(*i) + payload + 16);
	i->base.type = ty;
	i->base.mode = (sqfs_u16)num(t[1]); i->base.uid_idx = (sqfs_u16)num(t[2]); i->base.gid_idx = (sqfs_u16)num(t[3]);
	i->base.mod_time = (sqfs_u32)num(t[4]); i->base.inode_number = (sqfs_u32)num(t[5]);
	i->payload_bytes_available = payload;
	switch (ty) {
	case SQFS_INODE_DIR:
		i->data.dir.start_block = num(t[6]); i->data.dir.nlink = num(t[7]); i->data.dir.size = num(t[8]);
		i->data.dir.offset = num(t[9]); i->data.dir.parent_inode = num(t[10]);
		break;
	case SQFS_INODE_FILE: case SQFS_INODE_EXT_FILE: {
		char *w = t[ty == SQFS_INODE_FILE ? 10 : 13], *p;
		if (ty == SQFS_INODE_FILE) {
			i->data.file.blocks_start = num(t[6]); i->data.file.fragment_index = num(t[7]);
			i->data.file.fragment_offset = num(t[8]); i->data.file.file_size = num(t[9]);
		} else {
			i->data.file_ext.blocks_start = num(t[6]); i->data.file_ext.file_size = num(t[7]);
			i->data.file_ext.sparse = num(t[8]); i->data.file_ext.nlink = num(t[9]);
			i->data.file_ext.fragment_idx = num(t[10]); i->data.file_ext.fragment_offset = num(t[11]);
			i->data.file_ext.xattr_idx = num(t[12]);
		}
		j = 0;
		if (strcmp(w, "-")) while ((p = field(&w, ',')) != NULL) i->extra[j++] = (sqfs_u32)num(p);
		i->payload_bytes_used = 4 * j;
		break;
	}
	case SQFS_INODE_SLINK: case SQFS_INODE_EXT_SLINK: {
		unsigned char *b; long n = hex_decode_tok(t[8], &b, 1);
		if (n < 0) { free(i); return NULL; }
		memcpy(i->extra, b, n); free(b);
		i->payload_bytes_used = n;
		i->data.slink.nlink = num(t[6]); i->data.slink.target_size = num(t[7]);
		if (ty == SQFS_INODE_EXT_SLINK) i->data.slink_ext.xattr_idx = num(t[9]);
		break;
	}
	case SQFS_INODE_BDEV: case SQFS_INODE_CDEV:
		i->data.dev.nlink = num(t[6]); i->data.dev.devno = num(t[7]); break;
	case SQFS_INODE_EXT_BDEV: case SQFS_INODE_EXT_CDEV:
		i->data.dev_ext.nlink = num(t[6]); i->data.dev_ext.devno = num(t[7]); i->data.dev_ext.xattr_idx = num(t[8]); break;
	case SQFS_INODE_FIFO: case SQFS_INODE_SOCKET:
		i->data.ipc.nlink = num(t[6]); break;
	case SQFS_INODE_EXT_FIFO: case SQFS_INODE_EXT_SOCKET:
		i->data.ipc_ext.nlink = num(t[6]); i->data.ipc_ext.xattr_idx = num(t[7]); break;
	case SQFS_INODE_EXT_DIR: {
		char *l = t[13], *e;
		size_t o = 0;
		i->data.dir_ext.nlink = num(t[6]); i->data.dir_ext.size = num(t[7]); i->data.dir_ext.start_block = num(t[8]);
		i->data.dir_ext.parent_inode = num(t[9]); i->data.dir_ext.inodex_count = num(t[10]);
		i->data.dir_ext.offset = num(t[11]); i->data.dir_ext.xattr_idx = num(t[12]);
		if (strcmp(l, "-")) while ((e = field(&l, ';')) != NULL) {
			char *a = field(&e, '/'), *b = field(&e, '/'), *nm = field(&e, '/');
			sqfs_dir_index_t ie; unsigned char *nb; long nl;
			if (!a || !b || !nm || (nl = hex_decode_tok(nm, &nb, 1)) < 1) { free(i); return NULL; }
			memset(&ie, 0, sizeof(ie));
			ie.index = num(a); ie.start_block = num(b); ie.size = nl - 1;
			memcpy((char *)i->extra + o, &ie, sizeof(ie)); memcpy((char *)i->extra + o + sizeof(ie), nb, nl);
			o += sizeof(ie) + nl; free(nb);
		}
		i->payload_bytes_used = o;
		break;
	}
	}
	return i;
}

static void print_words(const sqfs_inode_generic_t *i)
{
	size_t j, n = i->payload_bytes_used / 4;
	if (!n) { putchar('-'); return; }
	for (j = 0; j < n; ++j) printf("%s%u", j ? "," : "", i->extra[j]);
}
static void print_inode(const sqfs_inode_generic_t *i)
{
	static const char *names[] = { "?", "dir", "file", "slink", "bdev", "cdev", "fifo", "sock",
		"xdir", "xfile", "xslink", "xbdev", "xcdev", "xfifo", "xsock" };
	int ty = i->base.type;
	printf("%s %u %u %u %u %u", (ty >= 1 && ty <= 14) ? names[ty] : "?", i->base.mode, i->base.uid_idx, i->base.gid_idx,
	       i->base.mod_time, i->base.inode_number);
	switch (ty) {
	case SQFS_INODE_DIR:
		printf(" %u %u %u %u %u", i->data.dir.start_block, i->data.dir.nlink, i->data.dir.size, i->data.dir.offset,
		       i->data.dir.parent_inode); break;
	case SQFS_INODE_FILE:
		printf(" %u %u %u %u ", i->data.file.blocks_start, i->data.file.fragment_index, i->data.file.fragment_offset,
		       i->data.file.file_size); print_words(i); break;
	case SQFS_INODE_EXT_FILE:
		printf(" %llu %llu %llu %u %u %u %u ", (unsigned long long)i->data.file_ext.blocks_start,
		       (unsigned long long)i->data.file_ext.file_size, (unsigned long long)i->data.file_ext.sparse,
		       i->data.file_ext.nlink, i->data.file_ext.fragment_idx, i->data.file_ext.fragment_offset,
		       i->data.file_ext.xattr_idx); print_words(i); break;
	case SQFS_INODE_SLINK: case SQFS_INODE_EXT_SLINK:
		printf(" %u %u ", i->data.slink.nlink, i->data.slink.target_size);
		hex_print(stdout, (const unsigned char *)i->extra, i->payload_bytes_used);
		if (ty == SQFS_INODE_EXT_SLINK) printf(" %u", i->data.slink_ext.xattr_idx);
		break;
	case SQFS_INODE_BDEV: case SQFS_INODE_CDEV: printf(" %u %u", i->data.dev.nlink, i->data.dev.devno); break;
	case SQFS_INODE_EXT_BDEV: case SQFS_INODE_EXT_CDEV:
		printf(" %u %u %u", i->data.dev_ext.nlink, i->data.dev_ext.devno, i->data.dev_ext.xattr_idx); break;
	case SQFS_INODE_FIFO: case SQFS_INODE_SOCKET: printf(" %u", i->data.ipc.nlink); break;
	case SQFS_INODE_EXT_FIFO: case SQFS_INODE_EXT_SOCKET: printf(" %u %u", i->data.ipc_ext.nlink, i->data.ipc_ext.xattr_idx); break;
	case SQFS_INODE_EXT_DIR: {
		size_t o = 0, k;
		printf(" %u %u %u %u %u %u %u ", i->data.dir_ext.nlink, i->data.dir_ext.size, i->data.dir_ext.start_block,
		       i->data.dir_ext.parent_inode, i->data.dir_ext.inodex_count, i->data.dir_ext.offset, i->data.dir_ext.xattr_idx);
		if (i->payload_bytes_used == 0) putchar('-');
		for (k = 0; o + sizeof(sqfs_dir_index_t) <= i->payload_bytes_used; ++k) {
			sqfs_dir_index_t ie;
			memcpy(&ie, (const char *)i->extra + o, sizeof(ie));
			if ((size_t)ie.size + 1 > i->payload_bytes_used - o - sizeof(ie)) { fputs(k ? ";!short" : "!short", stdout); break; }
			printf("%s%u/%u/", k ? ";" : "", ie.index, ie.start_block);
			hex_print(stdout, (const unsigned char *)i->extra + o + sizeof(ie), (size_t)ie.size + 1);
			o += sizeof(ie) + (size_t)ie.size + 1;
		}
		break;
	}
	}
}

/* ------------------------------------------------------------------ ops */
static void op_inode(void)
{
	sqfs_inode_generic_t *in, *out = NULL;
	sqfs_meta_writer_t *mw;
	sqfs_meta_reader_t *mr;
	sqfs_super_t super;
	unsigned char *tr, *stream;
	long trl;
	size_t used, n, enclen;
	sqfs_u64 blk; sqfs_u32 off; size_t roff;
	int ret;
	if (ntok < 4 || (trl = hex_decode_tok(toks[2], &tr, 1)) < 0) { puts("bad-op"); return; }
	in = parse_inode(toks + 3, ntok - 3, &used);
	if (!in || used != ntok - 3) { puts("bad-op"); free(in); free(tr); return; }
	mf_used = 0;
	mw = sqfs_meta_writer_create(&memfile, &raw_cmp, 0);
	ret = sqfs_meta_writer_write_inode(mw, in);
	sqfs_meta_writer_get_position(mw, &blk, &off);
	enclen = (size_t)(blk / 8194) * 8192 + off;
	sqfs_meta_writer_append(mw, tr, trl);
	sqfs_meta_writer_flush(mw);
	stream = malloc(mf_used + 1);
	n = strip_headers(0, stream);
	printf("w %d ", -ret);
	hex_print(stdout, stream, enclen);
	memset(&super, 0, sizeof(super));
	super.block_size = (sqfs_u32)num(toks[1]);
	mr = sqfs_meta_reader_create(&memfile, &raw_unc, 0, mf_used);
	ret = sqfs_meta_reader_read_inode(mr, &super, 0, 0, &out);
	printf(" r %d", -ret);
	if (ret == 0) {
		sqfs_meta_reader_get_position(mr, &blk, &roff);
		putchar(' ');
		print_inode(out);
		printf(" used=%zu", blk >= mf_used ? n : (size_t)(blk / 8194) * 8192 + roff);
	}
	putchar('\n');
	sqfs_free(out); free(in); free(tr); free(stream);
	sqfs_drop(mw); sqfs_drop(mr);
}

static void op_conv(int what)
{
	sqfs_inode_generic_t *in;
	size_t used, first = (what == 1) ? 1 : 2;
	int rc = 0;
	if (ntok < first + 7) { puts("bad-op"); return; }
	in = parse_inode(toks + first, ntok - first, &used);
	if (!in || used != ntok - first) { puts("bad-op"); free(in); return; }
	switch (what) {
	case 0:
		if (in->base.type == SQFS_INODE_FIFO || in->base.type == SQFS_INODE_SOCKET)
			in->data.ipc_ext.xattr_idx = (sqfs_u32)num(toks[1]);
		sqfs_inode_make_extended(in);
		break;
	case 1: sqfs_inode_make_basic(in); break;
	case 2: sqfs_inode_set_xattr_index(in, (sqfs_u32)num(toks[1])); break;
	case 3: rc = sqfs_inode_set_file_size(in, num(toks[1])); break;
	case 4: rc = sqfs_inode_set_file_block_start(in, num(toks[1])); break;
	}
	if (rc) printf("err %d", -rc);
	else print_inode(in);
	putchar('\n');
	free(in);
}

static void op_dirl(void)
{
	sqfs_meta_writer_t *dm;
	sqfs_dir_writer_t *dw;
	sqfs_inode_generic_t *ino = NULL;
	sqfs_meta_reader_t *mr = NULL;
	sqfs_dir_reader_t *dr = NULL;
	sqfs_readdir_state_t st;
	sqfs_dir_reader_state_t dst;
	sqfs_super_t super;
	unsigned char *stream = NULL;
	size_t dpos, n, i;
	int rc = 0, first = 1, drc;
	if (ntok < 4) { puts("bad-op"); return; }
	mf_used = 0;
	dpos = num(toks[1]);
	dm = sqfs_meta_writer_create(&memfile, &raw_cmp, 0);
	append_fill(dm, dpos);
	dw = sqfs_dir_writer_create(dm, 0);
	if (sqfs_dir_writer_begin(dw, 0)) { puts("err begin"); goto out; }
	for (i = 4; i < ntok; ++i) {
		char *s = toks[i], *nm = field(&s, '/'), *inum = field(&s, '/'), *ref = field(&s, '/'), *mode = field(&s, '/');
		unsigned char *nb; long nl;
		if (!nm || !inum || !ref || !mode || (nl = hex_decode_tok(nm, &nb, 1)) < 0) { puts("bad-op"); goto out; }
		if (memchr(nb, 0, nl)) { free(nb); puts("bad-op"); goto out; }
		rc = sqfs_dir_writer_add_entry(dw, (char *)nb, (sqfs_u32)num(inum), num(ref), (sqfs_u16)num(mode));
		free(nb);
		if (rc) { printf("st %d\n", -rc); goto out; }
	}
	rc = sqfs_dir_writer_end(dw);
	if (rc) { printf("st %d\n", -rc); goto out; }
	ino = sqfs_dir_writer_create_inode(dw, 0, (sqfs_u32)num(toks[2]), (sqfs_u32)num(toks[3]));
	sqfs_meta_writer_flush(dm);
	stream = malloc(mf_used + 1);
	n = strip_headers(0, stream);
	printf("st 0 size=%zu bytes=", sqfs_dir_writer_get_size(dw));
	hex_print(stdout, stream + dpos, n - dpos);
	fputs(" ino ", stdout);
	print_inode(ino);
	/* reader */
	memset(&super, 0, sizeof(super));
	super.directory_table_start = 0;
	super.inode_table_start = 0;
	super.id_table_start = mf_used; super.fragment_table_start = ~0ULL; super.export_table_start = ~0ULL;
	mr = sqfs_meta_reader_create(&memfile, &raw_unc, 0, mf_used);
	rc = sqfs_readdir_state_init(&st, &super, ino);
	dr = sqfs_dir_reader_create(&super, &raw_unc, &memfile, 0);
	drc = sqfs_dir_reader_open_dir(dr, ino, &dst, 0);
	fputs(" rd ", stdout);
	if (rc) { printf("%d", -rc); goto done; }
	{
		/* collect first: the status is printed in front */
		size_t cap = 16, cnt = 0, k;
		char **lines = malloc(cap * sizeof(*lines));
		int bad = 0;
		for (;;) {
			sqfs_dir_node_t *ent = NULL, *ent2 = NULL; sqfs_u32 inum; sqfs_u64 iref;
			char *buf; size_t o;
			rc = sqfs_meta_reader_readdir(mr, &st, &ent, &inum, &iref);
			if (drc == 0) {
				int r2 = sqfs_dir_reader_read(dr, &dst, &ent2);
				if (r2 != rc || (rc == 0 && (ent2->size != ent->size || ent2->type != ent->type ||
				    memcmp(ent2->name, ent->name, ent->size + 1) || dst.ent_ref != iref))) bad = 1;
				sqfs_free(ent2);
			} else bad = 1;
			if (rc != 0) break;
			buf = malloc(2 * ((size_t)ent->size + 1) + 80);
			for (o = 0, k = 0; k < (size_t)ent->size + 1; ++k) o += sprintf(buf + o, "%02x", ent->name[k]);
			sprintf(buf + o, "/%u/%u/%llu", inum, ent->type, (unsigned long long)iref);
			if (cnt == cap) { cap *= 2; lines = realloc(lines, cap * sizeof(*lines)); }
			lines[cnt++] = buf;
			sqfs_free(ent);
		}
		if (rc < 0) printf("%d", -rc);
		else {
			fputs("0 ", stdout);
			if (!cnt) putchar('-');
			for (k = 0; k < cnt; ++k) { if (!first) putchar(' '); first = 0; fputs(lines[k], stdout); }
		}
		if (bad) fputs(" dir-reader-mismatch", stdout);
		for (k = 0; k < cnt; ++k) free(lines[k]);
		free(lines);
	}
done:
	putchar('\n');
out:
	free(stream); free(ino);
	sqfs_drop(dr); sqfs_drop(mr); sqfs_drop(dw); sqfs_drop(dm);
}

static void op_meta(void)
{
	sqfs_compressor_t *c, *u;
	sqfs_meta_writer_t *m;
	sqfs_meta_reader_t *mr;
	sqfs_u64 *pblk; sqfs_u32 *poff;
	size_t *ppos, *pn, np = 0, i, total = 0;
	unsigned char *all;
	int rc;
	if (ntok < 3 || !codec_by_name(toks[1], &c, &u)) { puts("bad-op"); return; }
	np = count_list(toks[2], ',');
	ppos = calloc(np + 1, sizeof(*ppos)); pn = calloc(np + 1, sizeof(*pn));
	pblk = calloc(np + 1, sizeof(*pblk)); poff = calloc(np + 1, sizeof(*poff));
	if (np) {
		char *l = toks[2], *e; size_t k = 0;
		while ((e = field(&l, ',')) != NULL) { char *a = field(&e, ':'), *b = field(&e, ':'); if (!a || !b) { puts("bad-op"); return; } ppos[k] = num(a); pn[k] = num(b); ++k; }
	}
	mf_used = 0;
	m = sqfs_meta_writer_create(&memfile, c, 0);
	/* reference of stream position p = get_position at the moment p bytes have been appended: append byte-exact */
	{
		size_t pos = 0;
		for (i = 0; i < np; ++i) if (ppos[i] == 0) sqfs_meta_writer_get_position(m, &pblk[i], &poff[i]);
		for (i = 3; i < ntok; ++i) {
			unsigned char *b; long n = hex_decode_tok(toks[i], &b, 1), done = 0;
			if (n < 0) { puts("bad-op"); sqfs_drop(m); return; }
			/* split the chunk at the requested positions (does not change what append does to the stream) */
			while (done < n) {
				size_t next = (size_t)n - done, k;
				for (k = 0; k < np; ++k) if (ppos[k] > pos && ppos[k] - pos < next) next = ppos[k] - pos;
				sqfs_meta_writer_append(m, b + done, next);
				done += next; pos += next;
				for (k = 0; k < np; ++k) if (ppos[k] == pos) sqfs_meta_writer_get_position(m, &pblk[k], &poff[k]);
			}
			free(b);
		}
		total = pos;
	}
	sqfs_meta_writer_flush(m);
	fputs("disk=", stdout); hex_print(stdout, mf_data, mf_used);
	mr = sqfs_meta_reader_create(&memfile, u, 0, mf_used);
	all = malloc(total + 1);
	fputs(" all ", stdout);
	if (total == 0) fputs("0 -", stdout);
	else {
		rc = sqfs_meta_reader_seek(mr, 0, 0);
		if (!rc) rc = sqfs_meta_reader_read(mr, all, total);
		if (rc) printf("%d", -rc); else { fputs("0 ", stdout); hex_print(stdout, all, total); }
	}
	fputs(" rd ", stdout);
	if (!np) putchar('-');
	for (i = 0; i < np; ++i) {
		unsigned char *buf = malloc(pn[i] + 1);
		sqfs_meta_reader_t *r2 = sqfs_meta_reader_create(&memfile, u, 0, mf_used);
		printf("%s%llu:%u=", i ? " | " : "", (unsigned long long)pblk[i], poff[i]);
		rc = sqfs_meta_reader_seek(r2, pblk[i], poff[i]);
		if (!rc) rc = sqfs_meta_reader_read(r2, buf, pn[i]);
		if (rc) printf("%d", -rc); else { fputs("0 ", stdout); hex_print(stdout, buf, pn[i]); }
		free(buf); sqfs_drop(r2);
	}
	putchar('\n');
	free(all); free(ppos); free(pn); free(pblk); free(poff);
	sqfs_drop(m); sqfs_drop(mr);
}

static void op_table(void)
{
	sqfs_compressor_t *c, *u;
	unsigned char *d; long n; size_t pre;
	sqfs_u64 start = 0; void *out = NULL;
	int rc;
	if (ntok != 4 || !codec_by_name(toks[1], &c, &u) || (n = hex_decode_tok(toks[3], &d, 1)) < 0) { puts("bad-op"); return; }
	pre = num(toks[2]);
	mf_fill(pre);
	rc = sqfs_write_table(&memfile, c, d, n, &start);
	if (rc) { printf("err %d\n", -rc); free(d); return; }
	printf("start=%llu file=", (unsigned long long)start);
	hex_print(stdout, mf_data + pre, mf_used - pre);
	rc = sqfs_read_table(&memfile, u, n, start, pre, start, &out);
	fputs(" rd ", stdout);
	if (rc) printf("%d", -rc); else { fputs("0 ", stdout); hex_print(stdout, out, n); }
	putchar('\n');
	free(out); free(d);
}

static void op_idtab(int range)
{
	sqfs_id_table_t *t = sqfs_id_table_create(0), *t2;
	sqfs_super_t super;
	size_t pre = range ? 0 : num(toks[1]), i, n = range ? num(toks[1]) : ntok - 2;
	sqfs_u16 *idx = calloc(n + 1, sizeof(*idx));
	sqfs_u32 *ids = calloc(n + 1, sizeof(*ids));
	int rc = 0;
	for (i = 0; i < n && !rc; ++i) {
		ids[i] = range ? (sqfs_u32)(1000 + i) : (sqfs_u32)num(toks[2 + i]);
		rc = sqfs_id_table_id_to_index(t, ids[i], &idx[i]);
	}
	if (rc) { printf("idx %d\n", -rc); goto out; }
	fputs("idx 0 ", stdout);
	if (!range) { if (!n) putchar('-'); for (i = 0; i < n; ++i) printf("%s%u", i ? "," : "", idx[i]); putchar(' '); }
	memset(&super, 0, sizeof(super));
	mf_fill(pre);
	rc = sqfs_id_table_write(t, &memfile, &super, &raw_cmp);
	if (rc) { printf("err %d\n", -rc); goto out; }
	printf("count=%u start=%llu ", super.id_count, (unsigned long long)super.id_table_start);
	if (range) printf("len=%zu ", mf_used); else { fputs("file=", stdout); hex_print(stdout, mf_data + pre, mf_used - pre); putchar(' '); }
	super.bytes_used = mf_used; super.directory_table_start = pre;
	super.fragment_table_start = ~0ULL; super.export_table_start = ~0ULL;
	t2 = sqfs_id_table_create(0);
	rc = sqfs_id_table_read(t2, &memfile, &super, &raw_unc);
	if (range) {
		int same = rc == 0;
		for (i = 0; same && i < n; ++i) { sqfs_u32 v; if (sqfs_id_table_index_to_id(t2, idx[i], &v) || v != ids[i]) same = 0; }
		{ sqfs_u32 v; if (same && sqfs_id_table_index_to_id(t2, (sqfs_u16)n, &v) == 0 && n < 65536) same = 0; }
		printf("same=%s\n", same ? "true" : "false");
	} else {
		fputs("rd ", stdout);
		if (rc) printf("%d", -rc);
		else {
			sqfs_u32 v; size_t k;
			fputs("0 ", stdout);
			for (k = 0; sqfs_id_table_index_to_id(t2, (sqfs_u16)k, &v) == 0 && k < 65536; ++k) printf("%s%u", k ? "," : "", v);
			if (!k) putchar('-');
		}
		putchar('\n');
	}
	sqfs_drop(t2);
out:
	free(idx); free(ids); sqfs_drop(t);
}

/* idlimit <n0> <id>...: a table pre-loaded (sqfs_id_table_read) with ids 1000..1000+n0-1, then id_to_index per id,
 * then sqfs_id_table_write: the 65535-entry limit without 65535 linear searches */
static void op_idlimit(void)
{
	sqfs_id_table_t *t = sqfs_id_table_create(0);
	sqfs_super_t super;
	size_t n0, i;
	sqfs_u32 *raw;
	sqfs_u64 start = 0;
	int rc;
	if (ntok < 2) { puts("bad-op"); return; }
	n0 = num(toks[1]);
	if (n0 < 1 || n0 > 65535) { puts("bad-op"); return; }
	raw = calloc(n0, sizeof(*raw));
	for (i = 0; i < n0; ++i) raw[i] = htole32((sqfs_u32)(1000 + i));
	mf_used = 0;
	rc = sqfs_write_table(&memfile, &raw_cmp, raw, 4 * n0, &start);
	free(raw);
	memset(&super, 0, sizeof(super));
	super.id_count = (sqfs_u16)n0; super.id_table_start = start; super.bytes_used = mf_used;
	super.fragment_table_start = ~0ULL; super.export_table_start = ~0ULL;
	if (!rc) rc = sqfs_id_table_read(t, &memfile, &super, &raw_unc);
	if (rc) { printf("load %d\n", -rc); sqfs_drop(t); return; }
	fputs("idx", stdout);
	for (i = 2; i < ntok; ++i) {
		sqfs_u16 idx = 0xFFFF;
		rc = sqfs_id_table_id_to_index(t, (sqfs_u32)num(toks[i]), &idx);
		if (rc) { printf(" e%d", -rc); break; }
		printf(" %u", idx);
	}
	memset(&super, 0, sizeof(super));
	mf_used = 0;
	rc = sqfs_id_table_write(t, &memfile, &super, &raw_cmp);
	printf(" count=%u len=%zu\n", super.id_count, mf_used);
	sqfs_drop(t);
}

static void op_frag(void)
{
	sqfs_frag_table_t *t = sqfs_frag_table_create(0), *t2;
	sqfs_super_t super;
	size_t pre, i;
	int rc;
	if (ntok < 2) { puts("bad-op"); return; }
	pre = num(toks[1]);
	for (i = 2; i < ntok; ++i) {
		char *s = toks[i], *a = field(&s, '/'), *b = field(&s, '/');
		if (!a || !b) { puts("bad-op"); return; }
		sqfs_frag_table_append(t, num(a), (sqfs_u32)num(b), NULL);
	}
	memset(&super, 0, sizeof(super));
	mf_fill(pre);
	rc = sqfs_frag_table_write(t, &memfile, &super, &raw_cmp);
	if (rc) { printf("err %d\n", -rc); return; }
	if (ntok == 2) super.fragment_table_start = mf_used;      /* the model writes an empty table, the library none */
	printf("start=%llu file=", (unsigned long long)super.fragment_table_start);
	hex_print(stdout, mf_data + pre, mf_used - pre);
	super.bytes_used = mf_used + 1; super.directory_table_start = pre; super.id_table_start = super.fragment_table_start + 1;
	super.export_table_start = ~0ULL;
	t2 = sqfs_frag_table_create(0);
	rc = sqfs_frag_table_read(t2, &memfile, &super, &raw_unc);
	fputs(" rd ", stdout);
	if (rc) printf("%d", -rc);
	else {
		sqfs_fragment_t f; size_t k;
		fputs("0 ", stdout);
		for (k = 0; sqfs_frag_table_lookup(t2, (sqfs_u32)k, &f) == 0; ++k) printf("%s%llu/%u", k ? " " : "", (unsigned long long)f.start_offset, f.size);
		if (!k) putchar('-');
	}
	putchar('\n');
	sqfs_drop(t); sqfs_drop(t2);
}

/* --- xattr --- */
static void print_kvs(sqfs_xattr_t *l)
{
	int first = 1;
	if (!l) { putchar('-'); return; }
	for (; l; l = l->next) {
		if (!first) putchar(',');
		first = 0;
		hex_print(stdout, (const unsigned char *)l->key, strlen(l->key));
		putchar('=');
		hex_print(stdout, l->value, l->value_len);
	}
}

static void xattr_finish(sqfs_xattr_writer_t *xw, sqfs_u32 *idx, size_t nsets, int digest, unsigned char **vals, size_t *vlens)
{
	sqfs_super_t super;
	sqfs_xattr_reader_t *xr;
	unsigned char *hdr, *stream;
	size_t i, j, n, kvlen, idslen, nids, nloc;
	sqfs_u64 kvstart, idstart;
	int rc;
	memset(&super, 0, sizeof(super));
	super.flags = SQFS_FLAG_NO_XATTRS;
	mf_used = 0;
	rc = sqfs_xattr_writer_flush(xw, &memfile, &super, &raw_cmp);
	if (rc) { printf(" flush %d\n", -rc); return; }
	if (super.flags & SQFS_FLAG_NO_XATTRS) { puts(" none"); return; }
	hdr = mf_data + super.xattr_id_table_start;
	memcpy(&kvstart, hdr, 8); nids = hdr[8] | (hdr[9] << 8) | (hdr[10] << 16) | ((size_t)hdr[11] << 24);
	nloc = (mf_used - super.xattr_id_table_start - 16) / 8;
	memcpy(&idstart, hdr + 16, 8);
	/* kv stream = blocks [kvstart, idstart), id stream = blocks [idstart, table start) */
	stream = malloc(mf_used + 1);
	{
		size_t save = mf_used;
		mf_used = idstart; kvlen = strip_headers(kvstart, stream);
		printf(" n=%zu ", nids);
		if (digest) printf("kvlen=%zu ", kvlen); else { fputs("kv=", stdout); hex_print(stdout, stream, kvlen); putchar(' '); }
		mf_used = super.xattr_id_table_start; idslen = strip_headers(idstart, stream);
		if (digest) printf("idslen=%zu ", idslen); else { fputs("ids=", stdout); hex_print(stdout, stream, idslen); putchar(' '); }
		mf_used = save;
	}
	fputs("locs=", stdout);
	for (i = 0; i < nloc; ++i) { sqfs_u64 l; memcpy(&l, hdr + 16 + 8 * i, 8); printf("%s%llu", i ? "," : "", (unsigned long long)(l - idstart)); }
	if (!nloc) putchar('-');
	fputs(" oob=0", stdout);          /* the real code writing beyond the array is an ASan abort, never a line */
	super.bytes_used = mf_used; super.id_table_start = 0;
	xr = sqfs_xattr_reader_create(0);
	rc = sqfs_xattr_reader_load(xr, &super, &memfile, &raw_unc);
	if (rc) { printf(" load %d\n", -rc); free(stream); sqfs_drop(xr); return; }
	if (digest) {
		int same = 1;
		for (i = 0; i < nsets && same; ++i) {
			sqfs_xattr_t *l = NULL;
			rc = sqfs_xattr_reader_read_all(xr, idx[i], &l);
			if (rc || !l || l->next || strcmp(l->key, "user.k") || l->value_len != vlens[i] || memcmp(l->value, vals[i], vlens[i])) same = 0;
			sqfs_xattr_list_free(l);
		}
		printf(" same=%s\n", same ? "true" : "false");
	} else {
		int first = 1;
		fputs(" rd ", stdout);
		for (i = 0; i < nsets; ++i) {
			sqfs_xattr_t *l = NULL;
			for (j = 0; j < i; ++j) if (idx[j] == idx[i]) break;
			if (j < i) continue;
			if (!first) fputs(" ; ", stdout);
			first = 0;
			rc = sqfs_xattr_reader_read_all(xr, idx[i], &l);
			printf("%u:", idx[i]);
			if (rc) printf("%d", -rc); else { fputs("0 ", stdout); print_kvs(l); }
			sqfs_xattr_list_free(l);
		}
		putchar('\n');
	}
	(void)n;
	free(stream); sqfs_drop(xr);
}

static void op_xattr(void)
{
	sqfs_xattr_writer_t *xw = sqfs_xattr_writer_create(0);
	size_t nsets = ntok - 2, i;
	sqfs_u32 *idx = calloc(nsets + 1, sizeof(*idx));
	int rc = 0;
	if (ntok < 2) { puts("bad-op"); return; }
	for (i = 0; i < nsets && !rc; ++i) {
		char *l = toks[2 + i], *e;
		rc = sqfs_xattr_writer_begin(xw, 0);
		if (strcmp(l, "-")) while (!rc && (e = field(&l, ',')) != NULL) {
			char *k = field(&e, '='), *v = field(&e, '=');
			unsigned char *kb, *vb; long kl, vl;
			if (!k || !v || (kl = hex_decode_tok(k, &kb, 1)) < 0 || (vl = hex_decode_tok(v, &vb, 1)) < 0 || memchr(kb, 0, kl)) { puts("bad-op"); return; }
			rc = sqfs_xattr_writer_add_kv(xw, (char *)kb, vb, vl);
			free(kb); free(vb);
		}
		if (!rc) rc = sqfs_xattr_writer_end(xw, &idx[i]);
	}
	if (rc) { printf("rec %d\n", -rc); goto out; }
	fputs("rec 0 ", stdout);
	if (!nsets) putchar('-');
	for (i = 0; i < nsets; ++i) printf("%s%u", i ? "," : "", idx[i]);
	xattr_finish(xw, idx, nsets, 0, NULL, NULL);
out:
	free(idx); sqfs_drop(xw);
}

static void op_xsets(void)
{
	sqfs_xattr_writer_t *xw = sqfs_xattr_writer_create(0);
	size_t n, vlen, i;
	sqfs_u32 *idx; unsigned char **vals; size_t *vlens;
	int rc = 0;
	if (ntok != 4) { puts("bad-op"); return; }
	n = num(toks[2]); vlen = num(toks[3]);
	if (vlen < 4) vlen = 4;
	idx = calloc(n + 1, sizeof(*idx)); vals = calloc(n + 1, sizeof(*vals)); vlens = calloc(n + 1, sizeof(*vlens));
	for (i = 0; i < n && !rc; ++i) {
		vals[i] = calloc(1, vlen); vlens[i] = vlen;
		vals[i][0] = i & 255; vals[i][1] = (i >> 8) & 255; vals[i][2] = (i >> 16) & 255; vals[i][3] = (i >> 24) & 255;
		rc = sqfs_xattr_writer_begin(xw, 0);
		if (!rc) rc = sqfs_xattr_writer_add_kv(xw, "user.k", vals[i], vlen);
		if (!rc) rc = sqfs_xattr_writer_end(xw, &idx[i]);
	}
	if (rc) { printf("rec %d\n", -rc); return; }
	fputs("rec 0", stdout);
	xattr_finish(xw, idx, n, 1, vals, vlens);
	for (i = 0; i < n; ++i) free(vals[i]);
	free(idx); free(vals); free(vlens); sqfs_drop(xw);
}


static void op_export(void)
{
	sqfs_meta_writer_t *dm;
	sqfs_dir_writer_t *dw;
	sqfs_super_t super;
	size_t pre, i, count;
	void *out = NULL;
	int rc;
	if (ntok < 3) { puts("bad-op"); return; }
	pre = num(toks[1]);
	mf_fill(pre);
	dm = sqfs_meta_writer_create(&memfile, &raw_cmp, SQFS_META_WRITER_KEEP_IN_MEMORY);
	dw = sqfs_dir_writer_create(dm, SQFS_DIR_WRITER_CREATE_EXPORT_TABLE);
	sqfs_dir_writer_begin(dw, 0);
	for (i = 2; i + 1 < ntok; ++i) {
		char *s = toks[i], *a = field(&s, '/'), *b = field(&s, '/');
		if (!a || !b) { puts("bad-op"); goto out; }
		rc = sqfs_dir_writer_add_entry(dw, "x", (sqfs_u32)num(a), num(b), S_IFREG | 0644);
		if (rc) { printf("add %d\n", -rc); goto out; }
	}
	{
		char *s = toks[ntok - 1], *a = field(&s, '/'), *b = field(&s, '/');
		if (!a || !b) { puts("bad-op"); goto out; }
		memset(&super, 0, sizeof(super));
		rc = sqfs_dir_writer_write_export_table(dw, &memfile, &raw_cmp, (sqfs_u32)num(a), num(b), &super);
	}
	if (rc) { printf("err %d\n", -rc); goto out; }
	count = (mf_used - super.export_table_start) ? 0 : 0;
	printf("start=%llu file=", (unsigned long long)super.export_table_start);
	hex_print(stdout, mf_data + pre, mf_used - pre);
	/* number of entries: the first block's header tells the table size only for one block; recompute from the stream */
	{
		unsigned char *st = malloc(mf_used + 1);
		size_t save = mf_used, n;
		mf_used = super.export_table_start; n = strip_headers(pre, st); mf_used = save;
		count = n / 8; free(st);
	}
	rc = sqfs_read_table(&memfile, &raw_unc, 8 * count, super.export_table_start, pre, super.export_table_start, &out);
	fputs(" rd ", stdout);
	if (rc) printf("%d", -rc);
	else {
		fputs("0 ", stdout);
		if (!count) putchar('-');
		for (i = 0; i < count; ++i) { sqfs_u64 v; memcpy(&v, (char *)out + 8 * i, 8); printf("%s%llu", i ? "," : "", (unsigned long long)v); }
	}
	putchar('\n');
	free(out);
out:
	sqfs_drop(dw); sqfs_drop(dm);
}

static void op_super(void)
{
	sqfs_super_t s, r;
	int rc;
	if (ntok != 15) { puts("bad-op"); return; }
	rc = sqfs_super_init(&s, num(toks[1]), (sqfs_u32)num(toks[2]), (SQFS_COMPRESSOR)num(toks[3]));
	printf("init %d", -rc);
	if (rc) { putchar('\n'); return; }
	s.inode_count = num(toks[4]); s.flags = num(toks[5]); s.id_count = num(toks[6]); s.root_inode_ref = num(toks[7]);
	s.bytes_used = num(toks[8]); s.id_table_start = num(toks[9]); s.xattr_id_table_start = num(toks[10]);
	s.inode_table_start = num(toks[11]); s.directory_table_start = num(toks[12]); s.fragment_table_start = num(toks[13]);
	s.export_table_start = num(toks[14]);
	mf_used = 0;
	rc = sqfs_super_write(&s, &memfile);
	fputs(" bytes=", stdout); hex_print(stdout, mf_data, mf_used);
	memset(&r, 0, sizeof(r));
	rc = sqfs_super_read(&r, &memfile);
	printf(" rd %d", -rc);
	if (!rc) printf(" %u %u %u %u %u %u %u %u %u %u %u %llu %llu %llu %llu %llu %llu %llu %llu", r.magic, r.inode_count,
		r.modification_time, r.block_size, r.fragment_entry_count, r.compression_id, r.block_log, r.flags, r.id_count,
		r.version_major, r.version_minor, (unsigned long long)r.root_inode_ref, (unsigned long long)r.bytes_used,
		(unsigned long long)r.id_table_start, (unsigned long long)r.xattr_id_table_start, (unsigned long long)r.inode_table_start,
		(unsigned long long)r.directory_table_start, (unsigned long long)r.fragment_table_start, (unsigned long long)r.export_table_start);
	putchar('\n');
}

/* --- tree --- */
static sqfs_inode_generic_t *file_inode_from_spec(char *spec)
{
	char *k = field(&spec, ':'), *f[6], *w;
	size_t nf = (k && k[0] == 'x') ? 5 : 4, i, nw, j;
	sqfs_inode_generic_t *ino;
	if (!k) return NULL;
	for (i = 0; i < nf; ++i) if (!(f[i] = field(&spec, ':'))) return NULL;
	w = field(&spec, ':');
	if (!w) return NULL;
	nw = count_list(w, ';');
	ino = calloc(1, sizeof(*ino) + 4 * nw + 8);
	ino->payload_bytes_available = 4 * nw; ino->payload_bytes_used = 4 * nw;
	if (k[0] == 'x') {
		ino->base.type = SQFS_INODE_EXT_FILE;
		ino->data.file_ext.blocks_start = num(f[0]); ino->data.file_ext.file_size = num(f[1]);
		ino->data.file_ext.sparse = num(f[2]); ino->data.file_ext.fragment_idx = num(f[3]);
		ino->data.file_ext.fragment_offset = num(f[4]); ino->data.file_ext.nlink = 1;
		ino->data.file_ext.xattr_idx = 0xFFFFFFFF;
	} else {
		ino->base.type = SQFS_INODE_FILE;
		ino->data.file.blocks_start = num(f[0]); ino->data.file.fragment_index = num(f[1]);
		ino->data.file.fragment_offset = num(f[2]); ino->data.file.file_size = num(f[3]);
	}
	j = 0;
	if (strcmp(w, "-")) { char *p; while ((p = field(&w, ';')) != NULL) ino->extra[j++] = (sqfs_u32)num(p); }
	return ino;
}

static void walk_dir(sqfs_dir_reader_t *dr, sqfs_inode_generic_t *dir, int depth, int *err)
{
	sqfs_dir_reader_state_t st;
	int rc = sqfs_dir_reader_open_dir(dr, dir, &st, 0);
	if (rc) { *err = rc; return; }
	if (depth > 64) { *err = SQFS_ERROR_LINK_LOOP; return; }
	for (;;) {
		sqfs_dir_node_t *ent = NULL;
		sqfs_inode_generic_t *ino = NULL;
		rc = sqfs_dir_reader_read(dr, &st, &ent);
		if (rc > 0) break;
		if (rc < 0) { *err = rc; return; }
		rc = sqfs_dir_reader_get_inode(dr, st.ent_ref, &ino);
		if (rc) { sqfs_free(ent); *err = rc; return; }
		fputs(" ( ", stdout);
		hex_print(stdout, ent->name, (size_t)ent->size + 1);
		putchar(' ');
		print_inode(ino);
		if (ino->base.type == SQFS_INODE_DIR || ino->base.type == SQFS_INODE_EXT_DIR) walk_dir(dr, ino, depth + 1, err);
		fputs(" )", stdout);
		sqfs_free(ent); sqfs_free(ino);
		if (*err) return;
	}
}

static void op_tree(int first, size_t preload)
{
	fstree_t fs;
	fstree_defaults_t def;
	sqfs_writer_t wr;
	sqfs_super_t super;
	sqfs_dir_reader_t *dr;
	sqfs_inode_generic_t *root = NULL;
	unsigned char *stream;
	size_t i, n, split;
	int rc, werr = 0;
	char **paths = calloc(ntok + 1, sizeof(*paths)), **extras = calloc(ntok + 1, sizeof(*extras));
	char *types = calloc(ntok + 1, 1);
	sqfs_u32 *xattrs = calloc(ntok + 1, sizeof(*xattrs));
	memset(&def, 0, sizeof(def));
	def.mode = 0755;
	if (fstree_init(&fs, &def)) { puts("err init"); return; }
	for (i = first; i < ntok; ++i) {
		char *s = toks[i], *ph = field(&s, '|'), *t = field(&s, '|'), *perm = field(&s, '|'), *uid = field(&s, '|'),
		     *gid = field(&s, '|'), *mt = field(&s, '|'), *xa = field(&s, '|'), *ex = field(&s, '|');
		unsigned char *pb, *eb = NULL; long pl;
		sqfs_dir_entry_t *ent;
		const char *extra = NULL;
		sqfs_u16 tm = 0;
		if (!ph || !t || !perm || !uid || !gid || !mt || !xa || !ex || (pl = hex_decode_tok(ph, &pb, 1)) < 0) { puts("bad-op"); return; }
		switch (t[0]) {
		case 'd': tm = S_IFDIR; break; case 'f': tm = S_IFREG; break; case 'l': tm = S_IFLNK; break;
		case 'h': tm = S_IFLNK; break; case 'b': tm = S_IFBLK; break; case 'c': tm = S_IFCHR; break;
		case 'p': tm = S_IFIFO; break; case 's': tm = S_IFSOCK; break; default: puts("bad-op"); return;
		}
		ent = calloc(1, sizeof(*ent) + pl + 1);
		memcpy(ent->name, pb, pl);
		ent->mode = tm | (sqfs_u16)num(perm); ent->uid = num(uid); ent->gid = num(gid); ent->mtime = (sqfs_s64)num(mt);
		if (t[0] == 'h') ent->flags |= SQFS_DIR_ENTRY_FLAG_HARD_LINK;
		if (t[0] == 'b' || t[0] == 'c') ent->rdev = num(ex);
		if (t[0] == 'l' || t[0] == 'h') { if (hex_decode_tok(ex, &eb, 1) < 0) { puts("bad-op"); return; } extra = (char *)eb; }
		paths[i] = (char *)pb; types[i] = t[0]; xattrs[i] = (sqfs_u32)num(xa); extras[i] = ex;
		if (fstree_add_generic(&fs, ent, extra) == NULL) { printf("add %zu failed\n", i - first); free(ent); goto out; }
		free(ent); free(eb);
	}
	if (fstree_post_process(&fs)) { puts("post failed"); goto out; }
	for (i = first; i < ntok; ++i) {
		tree_node_t *nd = fstree_get_node_by_path(&fs, fs.root, paths[i], false, false);
		if (!nd) { puts("lookup failed"); goto out; }
		if (types[i] != 'h') nd->xattr_idx = xattrs[i];
		if (types[i] == 'f') {
			nd->data.file.inode = file_inode_from_spec(extras[i]);
			if (!nd->data.file.inode) { puts("bad-op"); goto out; }
		}
	}
	memset(&wr, 0, sizeof(wr));
	mf_used = 0;
	wr.outfile = &memfile;
	wr.cmp = &raw_cmp;
	wr.im = sqfs_meta_writer_create(&memfile, &raw_cmp, 0);
	wr.dm = sqfs_meta_writer_create(&memfile, &raw_cmp, SQFS_META_WRITER_KEEP_IN_MEMORY);
	wr.dirwr = sqfs_dir_writer_create(wr.dm, 0);
	wr.idtbl = sqfs_id_table_create(0);
	{ size_t k; sqfs_u16 ix; for (k = 0; k < preload; ++k) sqfs_id_table_id_to_index(wr.idtbl, (sqfs_u32)(1000 + k), &ix); }
	wr.fs = fs;
	rc = sqfs_serialize_fstree("tree", &wr);
	fs = wr.fs;
	split = wr.super.directory_table_start;
	printf("ret %d n=%zu root=%llu", -rc, fs.unique_inode_count, (unsigned long long)wr.super.root_inode_ref);
	if (rc == 0) {
		size_t save = mf_used;
		stream = malloc(mf_used + 1);
		mf_used = split; n = strip_headers(0, stream);
		fputs(" inodes=", stdout); hex_print(stdout, stream, n);
		mf_used = save; n = strip_headers(split, stream);
		fputs(" dirs=", stdout); hex_print(stdout, stream, n);
		fputs(" ids=", stdout);
		{ sqfs_u32 v; size_t k; for (k = 0; sqfs_id_table_index_to_id(wr.idtbl, (sqfs_u16)k, &v) == 0 && k < 65536; ++k) printf("%s%u", k ? "," : "", v); }
		free(stream);
		memset(&super, 0, sizeof(super));
		super.block_size = 4096;
		super.inode_table_start = 0; super.directory_table_start = split; super.id_table_start = mf_used;
		super.fragment_table_start = ~0ULL; super.export_table_start = ~0ULL; super.root_inode_ref = wr.super.root_inode_ref;
		dr = sqfs_dir_reader_create(&super, &raw_unc, &memfile, 0);
		rc = sqfs_dir_reader_get_root_inode(dr, &root);
		fputs(" walk", stdout);
		if (rc) werr = rc;
		else { fputs(" ( - ", stdout); print_inode(root); walk_dir(dr, root, 0, &werr); fputs(" )", stdout); }
		printf(" end %d", -werr);
		sqfs_free(root); sqfs_drop(dr);
	}
	putchar('\n');
	sqfs_drop(wr.dirwr); sqfs_drop(wr.dm); sqfs_drop(wr.im); sqfs_drop(wr.idtbl);
out:
	fstree_cleanup(&fs);
	for (i = first; i < ntok; ++i) free(paths[i]);
	free(paths); free(extras); free(types); free(xattrs);
}

int main(void)
{
	char *line = NULL;
	size_t cap = 0;
	while (getline(&line, &cap, stdin) > 0) {
		split(line);
		if (!ntok) { puts("bad-op"); fflush(stdout); continue; }
		if (!strcmp(toks[0], "inode")) op_inode();
		else if (!strcmp(toks[0], "mkext") || !strcmp(toks[0], "mkextfix")) op_conv(0);
		else if (!strcmp(toks[0], "mkbasic")) op_conv(1);
		else if (!strcmp(toks[0], "setx")) op_conv(2);
		else if (!strcmp(toks[0], "setsz")) op_conv(3);
		else if (!strcmp(toks[0], "setst")) op_conv(4);
		else if (!strcmp(toks[0], "dirl")) op_dirl();
		else if (!strcmp(toks[0], "meta")) op_meta();
		else if (!strcmp(toks[0], "table")) op_table();
		else if (!strcmp(toks[0], "idtab")) { if (ntok < 2) puts("bad-op"); else op_idtab(0); }
		else if (!strcmp(toks[0], "idrange")) { if (ntok != 2) puts("bad-op"); else op_idtab(1); }
		else if (!strcmp(toks[0], "frag")) op_frag();
		else if (!strcmp(toks[0], "idlimit")) op_idlimit();
		else if (!strcmp(toks[0], "xattr")) op_xattr();
		else if (!strcmp(toks[0], "xsets")) op_xsets();
		else if (!strcmp(toks[0], "tree")) op_tree(1, 0);
		else if (!strcmp(toks[0], "treeids")) { if (ntok < 2) puts("bad-op"); else op_tree(2, (size_t)num(toks[1])); }
		else if (!strcmp(toks[0], "export")) op_export();
		else if (!strcmp(toks[0], "super")) op_super();
		else puts("bad-op");
		fflush(stdout);
	}
	free(line); free(mf_data);
	return 0;
}
