/*
 * C15 harness (a): the real istream_xfrm / ostream_xfrm (lib/xfrm/src/istream.c, ostream.c of the working
 * tree; linked in, optionally with their BUFSZ constant rewritten by the check so that buffer edges are cheap
 * to reach) driven by a *fake* xfrm_stream_t: the toy codec of lean/Sqfs/Model/Xfrm.lean (namespace Toy), with
 * controllable intake per call (absorb), output granularity (gran) and back-pressure threshold (thresh).
 * The wrapped streams are in-memory: a sink that records every append, and a source that hands out scripted
 * prefixes (every chunking) from exact-size heap copies (so that ASan sees any over-read).
 *
 * Same line protocol as `sqfsmodel c15` (ops `ostream`, `istream`, and `ostreamx` / `istreamx`: the same with a wrapped stream whose
 * k-th append / flush / get_buffered_data call fails with a given code).
 */
#include "config.h"
#include "compat.h"
#include "sqfs/io.h"
#include "sqfs/error.h"
#include "xfrm/stream.h"
#include "xfrm/wrap.h"
#ifdef H_REAL_CODECS
#include "xfrm/compress.h"
#endif
#include "hexio.h"
#include "cpu_watchdog.h"
#include <assert.h>

#ifndef H_BUFSZ
#error "H_BUFSZ must be set to the BUFSZ the xfrm wrappers were compiled with"
#endif
/* CPU seconds allowed per scenario before the watchdog declares a hang (scenarios need milliseconds with the toy codec and
 * small buffers; real codecs under ASan and the real buffer size need well under a second) */
#ifndef H_WATCHDOG_S
#ifdef H_REAL_CODECS
#define H_WATCHDOG_S 10
#else
#define H_WATCHDOG_S (H_BUFSZ < 65536 ? 1 : 60)
#endif
#endif

/* ------------------------------------------------------------------ byte queue */
typedef struct { unsigned char *p; size_t n, cap; } bq_t;
static void bq_push(bq_t *q, const unsigned char *d, size_t n)
{
	if (q->n + n > q->cap) { q->cap = (q->n + n) * 2 + 16; q->p = realloc(q->p, q->cap); if (!q->p) abort(); }
	if (n) memcpy(q->p + q->n, d, n);
	q->n += n;
}
static void bq_push1(bq_t *q, unsigned char c) { bq_push(q, &c, 1); }
static void bq_drop(bq_t *q, size_t n) { if (n) memmove(q->p, q->p + n, q->n - n); q->n -= n; }
static void bq_clear(bq_t *q) { q->n = 0; }

/* ------------------------------------------------------------------ toy codec as xfrm_stream_t */
typedef struct {
	xfrm_stream_t base;
	size_t absorb, gran, thresh;
	int is_dec;
	bq_t q;
	/* encoder */
	int fin;
	/* decoder */
	int in_data, fresh, done, bad;
} toy_t;

static size_t min_sz(size_t a, size_t b) { return a < b ? a : b; }

static int toy_enc(toy_t *t, const unsigned char *in, sqfs_u32 in_size, unsigned char *out, sqfs_u32 room,
		   sqfs_u32 *in_read, sqfs_u32 *out_written, int mode)
{
	size_t n, m, i;
	int fin1;
	if (room == 0) return XFRM_STREAM_OK;
	n = t->fin ? 0 : (t->q.n <= t->thresh ? min_sz(t->absorb + 1, in_size) : 0);
	for (i = 0; i < n; ++i) { bq_push1(&t->q, 1); bq_push1(&t->q, in[i]); }
	fin1 = t->fin || (mode == XFRM_STREAM_FLUSH_FULL && n == in_size);
	if (fin1 && !t->fin) bq_push1(&t->q, 0);
	m = min_sz(min_sz(room, t->gran + 1), t->q.n);
	if (m) memcpy(out, t->q.p, m);
	bq_drop(&t->q, m);
	*in_read += n;
	*out_written += m;
	if (fin1 && t->q.n == 0) { t->fin = 0; return XFRM_STREAM_END; }
	t->fin = fin1;
	return XFRM_STREAM_OK;
}

/* parse(inData, bytes): consumed, decoded appended to q, flags */
static size_t toy_parse(toy_t *t, const unsigned char *in, size_t n, int *in_data, int *done, int *bad)
{
	size_t c = 0;
	*done = 0; *bad = 0;
	while (c < n) {
		if (*in_data) { bq_push1(&t->q, in[c++]); *in_data = 0; }
		else if (in[c] == 0) { ++c; *done = 1; return c; }
		else if (in[c] == 1) { ++c; *in_data = 1; }
		else { *bad = 1; return c; }
	}
	return c;
}

static void toy_dec_reset(toy_t *t) { bq_clear(&t->q); t->in_data = 0; t->fresh = 1; t->done = 0; t->bad = 0; }

static int toy_dec(toy_t *t, const unsigned char *in, sqfs_u32 in_size, unsigned char *out, sqfs_u32 room,
		   sqfs_u32 *in_read, sqfs_u32 *out_written, int mode)
{
	size_t n = 0, m, qn0 = t->q.n;
	int in_data1 = t->in_data, done1 = 0, bad1 = 0, fresh1;
	if (room == 0) return XFRM_STREAM_OK;
	if (t->bad) return XFRM_STREAM_ERROR;
	if (t->done) done1 = 1;
	else if (t->q.n <= t->thresh) n = toy_parse(t, in, min_sz(t->absorb + 1, in_size), &in_data1, &done1, &bad1);
	if (bad1) {
		/* bytes before the malformed marker count as consumed; what they decoded to is dropped */
		t->q.n = qn0;
		t->bad = 1;
		*in_read += n;
		return XFRM_STREAM_ERROR;
	}
	fresh1 = t->fresh && n == 0;
	m = min_sz(min_sz(room, t->gran + 1), t->q.n);
	if (done1 && t->q.n - m == 0) {
		if (m) memcpy(out, t->q.p, m);
		*in_read += n; *out_written += m;
		toy_dec_reset(t);
		return XFRM_STREAM_END;
	}
	if (mode == XFRM_STREAM_FLUSH_FULL && n == in_size && m == 0) {
		*in_read += n;
		if (fresh1) { toy_dec_reset(t); return XFRM_STREAM_END; }
		t->in_data = in_data1; t->fresh = fresh1; t->done = done1; t->bad = 1;
		return XFRM_STREAM_ERROR;
	}
	if (m) memcpy(out, t->q.p, m);
	bq_drop(&t->q, m);
	*in_read += n; *out_written += m;
	t->in_data = in_data1; t->fresh = fresh1; t->done = done1;
	if (t->q.n > 0 && m == room) return XFRM_STREAM_BUFFER_FULL;
	return XFRM_STREAM_OK;
}

static int toy_process(xfrm_stream_t *s, const void *in, sqfs_u32 in_size, void *out, sqfs_u32 out_size,
		       sqfs_u32 *in_read, sqfs_u32 *out_written, int mode)
{
	toy_t *t = (toy_t *)s;
	return t->is_dec ? toy_dec(t, in, in_size, out, out_size, in_read, out_written, mode)
			 : toy_enc(t, in, in_size, out, out_size, in_read, out_written, mode);
}

static void toy_destroy(sqfs_object_t *o) { toy_t *t = (toy_t *)o; free(t->q.p); free(t); }

static xfrm_stream_t *toy_create(int is_dec, size_t a, size_t g, size_t th)
{
	toy_t *t = calloc(1, sizeof(*t));
	if (!t) abort();
	t->absorb = a; t->gran = g; t->thresh = th; t->is_dec = is_dec; t->fresh = 1;
	t->base.process_data = toy_process;
	sqfs_object_init(t, toy_destroy, NULL);
	return (xfrm_stream_t *)t;
}

/* ------------------------------------------------------------------ sink */
typedef struct {
	sqfs_ostream_t base; bq_t data; unsigned flushes;
	unsigned long appends;			/* calls of append so far */
	long append_fail_at, flush_fail_at;	/* call number that fails (-1: none) */
	int append_fail_code, flush_fail_code;
} sink_t;
static int sink_append(sqfs_ostream_t *s, const void *d, size_t n)
{
	sink_t *k = (sink_t *)s;
	if (k->append_fail_at >= 0 && (unsigned long)k->append_fail_at == k->appends && k->append_fail_code != 0) {
		k->appends++;
		return k->append_fail_code;	/* nothing is stored */
	}
	k->appends++;
	if (d == NULL) { size_t i; for (i = 0; i < n; ++i) bq_push1(&k->data, 0); }
	else bq_push(&k->data, d, n);
	return 0;
}
static int sink_flush(sqfs_ostream_t *s)
{
	sink_t *k = (sink_t *)s;
	if (k->flush_fail_at >= 0 && (unsigned long)k->flush_fail_at == k->flushes && k->flush_fail_code != 0)
		return k->flush_fail_code;
	k->flushes++;
	return 0;
}
static const char *sink_name(sqfs_ostream_t *s) { (void)s; return "sink"; }
static void sink_destroy(sqfs_object_t *o) { sink_t *k = (sink_t *)o; free(k->data.p); free(k); }
static sink_t *sink_create(void)
{
	sink_t *k = calloc(1, sizeof(*k));
	if (!k) abort();
	k->append_fail_at = k->flush_fail_at = -1;
	k->base.append = sink_append; k->base.flush = sink_flush; k->base.get_filename = sink_name;
	sqfs_object_init(k, sink_destroy, NULL);
	return k;
}

/* "k:e" or "-" */
static int parse_fail(const char *t, long *at, int *code)
{
	char *e;
	*at = -1; *code = 0;
	if (strcmp(t, "-") == 0) return 0;
	*at = strtol(t, &e, 10);
	if (*e != ':' || *at < 0) return -1;
	*code = (int)strtol(e + 1, &e, 10);
	if (*e) return -1;
	return 0;
}

/* ------------------------------------------------------------------ scripted source */
typedef struct {
	sqfs_istream_t base;
	unsigned char *data; size_t len, pos;
	size_t *script; size_t nscript, si;
	unsigned char *window; size_t wlen;	/* exact-size copy handed out last */
	unsigned long gets;			/* calls of get_buffered_data so far */
	long fail_at; int fail_code;		/* that call returns fail_code < 0 */
} src_t;
static int src_get(sqfs_istream_t *s, const sqfs_u8 **out, size_t *size, size_t want)
{
	src_t *r = (src_t *)s;
	size_t left = r->len - r->pos, n;
	(void)want;
	if (r->fail_at >= 0 && (unsigned long)r->fail_at == r->gets && r->fail_code < 0) { r->gets++; *out = NULL; *size = 0; return r->fail_code; }
	r->gets++;
	free(r->window); r->window = NULL; r->wlen = 0;
	if (left == 0) { if (r->si < r->nscript) r->si++; *out = NULL; *size = 0; return 1; }
	n = left;
	if (r->si < r->nscript) { n = min_sz(r->script[r->si] + 1, left); r->si++; }
	r->window = malloc(n);
	if (!r->window) abort();
	memcpy(r->window, r->data + r->pos, n); /* n > 0 */
	r->wlen = n;
	*out = r->window; *size = n;
	return 0;
}
static void src_advance(sqfs_istream_t *s, size_t count)
{
	src_t *r = (src_t *)s;
	if (count > r->wlen) { puts("PROTOCOL: advance beyond the window"); fflush(stdout); abort(); }
	r->pos += count;
	r->wlen -= count;	/* the rest of the window is invalid after an advance (a fresh get follows) */
}
static const char *src_name(sqfs_istream_t *s) { (void)s; return "src"; }
static void src_destroy(sqfs_object_t *o) { src_t *r = (src_t *)o; free(r->data); free(r->script); free(r->window); free(r); }

/* ------------------------------------------------------------------ parsing helpers */
static int parse_nat(const char *s, size_t *out)
{
	char *e; unsigned long long v;
	if (!*s) return -1;
	v = strtoull(s, &e, 10);
	if (*e) return -1;
	*out = (size_t)v; return 0;
}

static size_t *parse_natlist(char *s, size_t *count)
{
	size_t cap = 16, n = 0, *v = malloc(cap * sizeof(*v));
	char *save = NULL, *t;
	*count = 0;
	if (strcmp(s, "-") == 0) return v;
	for (t = strtok_r(s, ",", &save); t; t = strtok_r(NULL, ",", &save)) {
		if (n == cap) { cap *= 2; v = realloc(v, cap * sizeof(*v)); }
		if (parse_nat(t, &v[n++])) { free(v); return NULL; }
	}
	*count = n;
	return v;
}

static void print_nats(const size_t *v, size_t n)
{
	size_t i;
	if (n == 0) { putchar('-'); return; }
	for (i = 0; i < n; ++i) printf(i ? ",%zu" : "%zu", v[i]);
}

#define MAXTOK 4096

/* the codec under the wrappers: the toy codec, or (ops `rostream` / `ristream`, built with -DH_REAL_CODECS against the real
 * library) a real compressor / decompressor of lib/xfrm named in place of the three toy knobs: `<codec> 0 0` */
static xfrm_stream_t *make_codec(int is_dec, int real, char **tok, size_t a, size_t g, size_t th)
{
	if (!real) return toy_create(is_dec, a, g, th);
#ifdef H_REAL_CODECS
	{
		int id = xfrm_compressor_id_from_name(tok[2]);
		if (id <= 0) return NULL;
		return is_dec ? decompressor_stream_create(id) : compressor_stream_create(id, NULL);
	}
#else
	(void)tok;
	return NULL;
#endif
}

static void do_ostream(char **tok, int ntok, int with_failures, int real)
{
	size_t b, a = 0, g, th;
	sink_t *sink;
	xfrm_stream_t *x;
	sqfs_ostream_t *o;
	int i, rc = 0, first = with_failures ? 7 : 5;
	long af = -1, ff = -1; int ac = 0, fc = 0;
	if (ntok < first || parse_nat(tok[1], &b) || (!real && parse_nat(tok[2], &a)) || parse_nat(tok[3], &g) || parse_nat(tok[4], &th)) { puts("bad-op"); return; }
	if (with_failures && (parse_fail(tok[5], &af, &ac) || parse_fail(tok[6], &ff, &fc))) { puts("bad-op"); return; }
	if (b != H_BUFSZ) { puts("bad-bufsz"); return; }
	sink = sink_create();
	sink->append_fail_at = af; sink->append_fail_code = ac; sink->flush_fail_at = ff; sink->flush_fail_code = fc;
	x = make_codec(0, real, tok, a, g, th);
	if (!x) { puts("bad-op"); sqfs_drop(sink); return; }
	o = ostream_xfrm_create((sqfs_ostream_t *)sink, x);
	for (i = first; i < ntok && rc == 0; ++i) {
		if (strcmp(tok[i], "f") == 0) rc = o->flush(o);
		else if (tok[i][0] == 'a' && tok[i][1] == ':') {
			unsigned char *d; long n = hex_decode_tok(tok[i] + 2, &d, 0);
			if (n < 0) { puts("bad-op"); goto out; }
			rc = o->append(o, d, (size_t)n);
			free(d);
		} else if (tok[i][0] == 'z' && tok[i][1] == ':') {
			size_t n;
			if (parse_nat(tok[i] + 2, &n)) { puts("bad-op"); goto out; }
			rc = o->append(o, NULL, n);
		} else { puts("bad-op"); goto out; }
	}
	if (rc) { printf("err %d ", rc); hex_print(stdout, sink->data.p, sink->data.n); putchar('\n'); }
	else {
		fputs("ok ", stdout); hex_print(stdout, sink->data.p, sink->data.n);
		if (with_failures) printf(" %u %lu\n", sink->flushes, sink->appends); else printf(" %u\n", sink->flushes);
	}
out:
	sqfs_drop(o); sqfs_drop(x); sqfs_drop(sink);
}

static void do_istream(char **tok, int ntok, int with_failures, int real)
{
	long fat = -1; int fcode = 0;
	size_t b, a = 0, g, th, nclient = 0, i, nsizes = 0, *sizes;
	src_t *src;
	xfrm_stream_t *x;
	sqfs_istream_t *in;
	bq_t acc = { 0 };
	long n;
	char *save = NULL, *t;
	int eof = 0, rc = 0;
	if (ntok != (with_failures ? 9 : 8) || parse_nat(tok[1], &b) || (!real && parse_nat(tok[2], &a)) || parse_nat(tok[3], &g) || parse_nat(tok[4], &th)) { puts("bad-op"); return; }
	if (with_failures && parse_fail(tok[8], &fat, &fcode)) { puts("bad-op"); return; }
	if (b != H_BUFSZ) { puts("bad-bufsz"); return; }
	src = calloc(1, sizeof(*src));
	src->fail_at = fat; src->fail_code = fcode;
	n = hex_decode_tok(tok[5], &src->data, 0);
	if (n < 0) { puts("bad-op"); free(src); return; }
	src->len = (size_t)n;
	src->script = parse_natlist(tok[6], &src->nscript);
	if (!src->script) { puts("bad-op"); free(src->data); free(src); return; }
	src->base.get_buffered_data = src_get; src->base.advance_buffer = src_advance; src->base.get_filename = src_name;
	sqfs_object_init(src, src_destroy, NULL);
	x = make_codec(1, real, tok, a, g, th);
	if (!x) { puts("bad-op"); sqfs_drop(src); return; }
	in = istream_xfrm_create((sqfs_istream_t *)src, x);
	sizes = malloc(sizeof(*sizes) * (strlen(tok[7]) + 2));
	if (strcmp(tok[7], "-") != 0) {
		for (t = strtok_r(tok[7], ",", &save); t && !eof && rc == 0; t = strtok_r(NULL, ",", &save)) {
			size_t want, take, size;
			const sqfs_u8 *ptr;
			char *colon = strchr(t, ':');
			if (!colon) { puts("bad-op"); goto out; }
			*colon = 0;
			if (parse_nat(t, &want) || parse_nat(colon + 1, &take)) { puts("bad-op"); goto out; }
			rc = in->get_buffered_data(in, &ptr, &size, want);
			if (rc < 0) break;
			sizes[nsizes++] = size;
			if (rc > 0) { eof = 1; rc = 0; break; }
			take = min_sz(take, size);
			bq_push(&acc, ptr, take);
			in->advance_buffer(in, take);
			++nclient;
		}
	}
	(void)i;
	if (rc < 0) { printf("err %d ", rc); hex_print(stdout, acc.p, acc.n); putchar(' '); print_nats(sizes, nsizes); putchar('\n'); }
	else {
		fputs("ok ", stdout); hex_print(stdout, acc.p, acc.n);
		printf(" %d %zu ", eof, src->len - src->pos); print_nats(sizes, nsizes);
		if (with_failures) printf(" %lu", src->gets);
		putchar('\n');
	}
out:
	free(sizes); free(acc.p);
	sqfs_drop(in); sqfs_drop(x); sqfs_drop(src);
}

/* rcall <codec> <c|d> <mode>:<room>:<in hex> ...  -> per call `ret,consumed,<out hex>`: the real process_data of a real codec, call by call */
static void do_rcall(char **tok, int ntok)
{
#ifdef H_REAL_CODECS
	int i, id;
	xfrm_stream_t *x;
	if (ntok < 3) { puts("bad-op"); return; }
	id = xfrm_compressor_id_from_name(tok[1]);
	if (id <= 0 || (tok[2][0] != 'c' && tok[2][0] != 'd')) { puts("bad-op"); return; }
	x = tok[2][0] == 'c' ? compressor_stream_create(id, NULL) : decompressor_stream_create(id);
	if (!x) { puts("bad-op"); return; }
	for (i = 3; i < ntok; ++i) {
		char *a = tok[i], *b = strchr(a, ':'), *c;
		unsigned char *in, *out;
		long n, mode;
		unsigned long room;
		sqfs_u32 in_read = 0, out_written = 0;
		int ret;
		if (!b || !(c = strchr(b + 1, ':'))) { fputs("bad-op", stdout); break; }
		*b = 0; *c = 0;
		mode = strtol(a, NULL, 10); room = strtoul(b + 1, NULL, 10);
		n = hex_decode_tok(c + 1, &in, 0);
		if (n < 0) { fputs("bad-op", stdout); break; }
		out = malloc(room ? room : 1);
		ret = x->process_data(x, in, (sqfs_u32)n, out, (sqfs_u32)room, &in_read, &out_written, (int)mode);
		if (i > 3) putchar(' ');
		printf("%d,%u,", ret, in_read);
		hex_print(stdout, out, out_written);
		free(in); free(out);
	}
	putchar('\n');
	sqfs_drop(x);
#else
	(void)tok; (void)ntok;
	puts("bad-op");
#endif
}

/* rfeed <codec> <c|d> <room> <chunk> <stream hex>: drive the real process_data like the wrappers do — offer at most <chunk> bytes of
 * what is left with FLUSH_NONE, re-offering what was not consumed; once nothing is left, FLUSH_FULL without input until END, an
 * error, or a call that neither consumes nor produces.  Trace: per call `mode,avail,ret,consumed,<out hex>` */
static void do_rfeed(char **tok, int ntok)
{
#ifdef H_REAL_CODECS
	int id, first = 1;
	xfrm_stream_t *x;
	unsigned char *data, *out;
	long n;
	size_t room, chunk, pos = 0, rounds = 0;
	if (ntok != 6 || parse_nat(tok[3], &room) || parse_nat(tok[4], &chunk) || room == 0 || chunk == 0) { puts("bad-op"); return; }
	id = xfrm_compressor_id_from_name(tok[1]);
	if (id <= 0 || (tok[2][0] != 'c' && tok[2][0] != 'd')) { puts("bad-op"); return; }
	n = hex_decode_tok(tok[5], &data, 0);
	if (n < 0) { puts("bad-op"); return; }
	x = tok[2][0] == 'c' ? compressor_stream_create(id, NULL) : decompressor_stream_create(id);
	if (!x) { puts("bad-op"); free(data); return; }
	out = malloc(room);
	for (;;) {
		size_t avail = min_sz(chunk, (size_t)n - pos);
		int mode = avail > 0 ? XFRM_STREAM_FLUSH_NONE : XFRM_STREAM_FLUSH_FULL, ret;
		sqfs_u32 ir = 0, ow = 0;
		unsigned char *in = malloc(avail ? avail : 1);	/* exact-size copy: ASan sees any over-read */
		if (avail) memcpy(in, data + pos, avail);
		ret = x->process_data(x, in, (sqfs_u32)avail, out, (sqfs_u32)room, &ir, &ow, mode);
		if (!first) putchar(' ');
		first = 0;
		printf("%d,%zu,%d,%u,", mode, avail, ret, ir);
		hex_print(stdout, out, ow);
		free(in);
		if (ir > avail) { fputs(" OVERCONSUMED", stdout); break; }
		pos += ir;
		if (ret == XFRM_STREAM_ERROR) break;
		if (avail == 0 && (ret == XFRM_STREAM_END || ow == 0)) break;
		if (++rounds > 2000000) { fputs(" ROUNDS", stdout); break; }
	}
	putchar('\n');
	free(out); free(data);
	sqfs_drop(x);
#else
	(void)tok; (void)ntok;
	puts("bad-op");
#endif
}

int main(void)
{
	size_t cap = 1 << 24;
	char *line = malloc(cap);
	static char *tok[MAXTOK];
	while (fgets(line, (int)cap, stdin)) {
		int ntok = 0;
		char *save = NULL, *t;
		for (t = strtok_r(line, " \n", &save); t && ntok < MAXTOK; t = strtok_r(NULL, " \n", &save)) tok[ntok++] = t;
		if (ntok == 0) { puts("bad-op"); continue; }
		verif_cpu_watchdog(H_WATCHDOG_S);	/* CPU seconds per scenario; they need milliseconds (small buffers) / well under a second */
		if (strcmp(tok[0], "ostream") == 0) do_ostream(tok, ntok, 0, 0);
		else if (strcmp(tok[0], "istream") == 0) do_istream(tok, ntok, 0, 0);
		else if (strcmp(tok[0], "ostreamx") == 0) do_ostream(tok, ntok, 1, 0);
		else if (strcmp(tok[0], "istreamx") == 0) do_istream(tok, ntok, 1, 0);
		else if (strcmp(tok[0], "rostream") == 0) do_ostream(tok, ntok, 0, 1);
		else if (strcmp(tok[0], "ristream") == 0) do_istream(tok, ntok, 0, 1);
		else if (strcmp(tok[0], "rcall") == 0) do_rcall(tok, ntok);
		else if (strcmp(tok[0], "rfeed") == 0) do_rfeed(tok, ntok);
		else puts("bad-op");
		verif_cpu_watchdog(0);
		fflush(stdout);
	}
	free(line);
	return 0;
}
