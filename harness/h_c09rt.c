/*
 * C09, real threads: the real lib/util/src/threadpool.c (included below) on the REAL libpthread, every pthread
 * call wrapped by shim_c09_rt.h with a seeded random perturbation before and after the call (so that the window
 * right after pthread_mutex_unlock, after a lock acquisition, around pthread_cond_wait … is widened at random).
 * Two builds of this file are used by tools/checks/c09.py: plain (hang detector) and -fsanitize=thread (the
 * happens-before monitor for the pool's shared fields).
 *
 *   rt <seed> <nworkers> <rcspec> <pmode> <op>*      op: s<d> | q | g | x   (x = destroy, must be last)
 *      pmode 0 no perturbation   1 light   2 heavy   3 concentrated after unlock / after lock acquisition
 *
 * The process's initial thread is the submitting thread.  Output, one line per script:
 *   r=<API return values, as `sqfsmodel c09 serial` prints them> || sub=<data of accepted submits>
 *   cb=<worker:data in callback order> ret=<data handed back by dequeue> [err=<flags>]
 * err flags: ctx (callback on a context that is not the worker's own, is in use, or was used by another thread),
 *            twice (an item's callback ran twice), unpub (dequeue handed back an item whose callback has not run).
 * If the script does not end in `x` the pool is destroyed after the last op (not part of `r=`).
 *
 * Hang detector (CPU-time based, immune to a loaded machine): a watchdog thread samples every 250 ms; when for
 * 16 consecutive samples (4 s) no wrapper was entered or left, no API call returned, no callback ran, the CPU
 * time of the main thread and of every worker did not change AND every one of them is in state S (sleeping, not
 * R: runnable-but-starved) in /proc/self/task/<tid>/stat, the run is declared hung: `HANG …` is printed with the
 * pool's fields and the process exits with status 3.
 */
#define _GNU_SOURCE
#include "config.h"
#include <stdlib.h>
#include <string.h>
#include <stdio.h>
#include <stdint.h>
#include <unistd.h>
#include <sched.h>
#include <time.h>
#include <sys/syscall.h>
#include "shim_c09_rt.h"
#include "lib/util/src/threadpool.c"

#undef pthread_create
#undef pthread_join
#undef pthread_mutex_lock
#undef pthread_mutex_unlock
#undef pthread_cond_wait
#undef pthread_cond_signal
#undef pthread_cond_broadcast

#if defined(__SANITIZE_THREAD__)
#define NO_TSAN __attribute__((no_sanitize("thread")))
#else
#define NO_TSAN
#endif

#define MAXW 64
#define MAXITEM 4096
#define MAXLOG 8192

typedef struct {
	int idx;
	int busy;                 /* accessed with relaxed atomics only */
	pthread_t owner;
	int has_owner;
	int nlog;
	struct { unsigned seq; int d; } log[MAXLOG];
} wctx_t;

static wctx_t ctxs[MAXW];
static int rc_tbl[MAXITEM];
static unsigned int vals[MAXITEM];      /* work items; the callback increments its item (plain access) */
static int g_n, g_pmode;
static uint64_t g_seed;
static unsigned g_seq;                  /* relaxed atomic */
static unsigned g_err;                  /* relaxed atomic: 1 ctx, 2 twice, 4 unpub */
static unsigned long g_activity;        /* relaxed atomic: wrapper entries/exits, API returns, callbacks */
static int g_running;                   /* relaxed atomic */
static pid_t g_tids[MAXW + 1];          /* relaxed atomic: 0 = main, i+1 = i-th created thread */
static int g_ntids;
static char g_line[1 << 16];
static thread_pool_impl_t *g_pool;

static __thread uint64_t rt_rng;
static __thread int rt_seeded;

static uint64_t mix(uint64_t x)
{
	x += 0x9E3779B97F4A7C15ULL;
	x = (x ^ (x >> 30)) * 0xBF58476D1CE4E5B9ULL;
	x = (x ^ (x >> 27)) * 0x94D049BB133111EBULL;
	return x ^ (x >> 31);
}

static uint64_t rt_next(void)
{
	if (!rt_seeded) {
		rt_rng = mix(g_seed ^ 0x1234);
		rt_seeded = 1;
	}
	rt_rng = rt_rng * 6364136223846793005ULL + 1442695040888963407ULL;
	return mix(rt_rng);
}

static void rt_sleep_us(unsigned us)
{
	struct timespec ts = { 0, (long)us * 1000L };
	nanosleep(&ts, NULL);
}

/* where: 0 ordinary, 1 right after unlock / right after a lock acquisition (the lock-free windows) */
static void rt_perturb(int where)
{
	uint64_t r;
	unsigned k;
	__atomic_fetch_add(&g_activity, 1, __ATOMIC_RELAXED);
	if (g_pmode == 0)
		return;
	r = rt_next();
	k = (unsigned)(r % 100);
	if (g_pmode == 3) {
		if (!where) {
			if (k < 10)
				sched_yield();
			return;
		}
		if (k < 30)
			return;
		if (k < 40)
			sched_yield();
		else if (k < 90)
			rt_sleep_us(1 + (unsigned)((r >> 8) % 400));
		else
			rt_sleep_us(1000 + (unsigned)((r >> 8) % 3000));
		return;
	}
	if (g_pmode == 1) {
		if (k < 80)
			return;
		if (k < 92)
			sched_yield();
		else
			rt_sleep_us(1 + (unsigned)((r >> 8) % 100));
		return;
	}
	if (k < 50)
		return;
	if (k < 70)
		sched_yield();
	else if (k < 97)
		rt_sleep_us(1 + (unsigned)((r >> 8) % 300));
	else
		rt_sleep_us(1000 + (unsigned)((r >> 8) % 2000));
}

typedef struct { void *(*fn)(void *); void *arg; int idx; } tramp_t;
static tramp_t tramps[MAXW + 1];

static void *rt_trampoline(void *p)
{
	tramp_t *t = p;
	rt_rng = mix(g_seed ^ ((uint64_t)(t->idx + 1) << 32));
	rt_seeded = 1;
	__atomic_store_n(&g_tids[t->idx + 1], (pid_t)syscall(SYS_gettid), __ATOMIC_RELAXED);
	rt_perturb(0);
	return t->fn(t->arg);
}

int rt_pthread_create(pthread_t *th, const pthread_attr_t *a, void *(*fn)(void *), void *arg)
{
	int idx = g_ntids, rc;
	if (idx >= MAXW) {
		fprintf(stderr, "h_c09rt: too many threads\n");
		abort();
	}
	tramps[idx].fn = fn;
	tramps[idx].arg = arg;
	tramps[idx].idx = idx;
	g_ntids = idx + 1;
	rt_perturb(0);
	rc = pthread_create(th, a, rt_trampoline, &tramps[idx]);
	rt_perturb(0);
	return rc;
}

int rt_pthread_join(pthread_t th, void **ret)
{
	int rc;
	rt_perturb(0);
	rc = pthread_join(th, ret);
	rt_perturb(0);
	return rc;
}

int rt_mutex_lock(pthread_mutex_t *m)
{
	int rc;
	rt_perturb(0);
	rc = pthread_mutex_lock(m);
	rt_perturb(1);
	return rc;
}

int rt_mutex_unlock(pthread_mutex_t *m)
{
	int rc;
	rt_perturb(0);
	rc = pthread_mutex_unlock(m);
	rt_perturb(1);
	return rc;
}

int rt_cond_wait(pthread_cond_t *c, pthread_mutex_t *m)
{
	int rc;
	rt_perturb(0);
	rc = pthread_cond_wait(c, m);
	rt_perturb(1);
	return rc;
}

int rt_cond_signal(pthread_cond_t *c)
{
	int rc;
	rt_perturb(0);
	rc = pthread_cond_signal(c);
	rt_perturb(0);
	return rc;
}

int rt_cond_broadcast(pthread_cond_t *c)
{
	int rc;
	rt_perturb(0);
	rc = pthread_cond_broadcast(c);
	rt_perturb(0);
	return rc;
}

/* ------------------------------------------------------------------ worker callback */
static int cb(void *user, void *item)
{
	wctx_t *c = user;
	int d = (int)((unsigned int *)item - vals);
	__atomic_fetch_add(&g_activity, 1, __ATOMIC_RELAXED);
	if (c == NULL || c < ctxs || c >= ctxs + MAXW || c->idx != (int)(c - ctxs)) {
		__atomic_fetch_or(&g_err, 1, __ATOMIC_RELAXED);
		return rc_tbl[d];
	}
	if (__atomic_exchange_n(&c->busy, 1, __ATOMIC_RELAXED) != 0)
		__atomic_fetch_or(&g_err, 1, __ATOMIC_RELAXED);
	if (!c->has_owner) {
		c->owner = pthread_self();
		c->has_owner = 1;
	} else if (!pthread_equal(c->owner, pthread_self())) {
		__atomic_fetch_or(&g_err, 1, __ATOMIC_RELAXED);
	}
	if (c->nlog < MAXLOG) {
		c->log[c->nlog].seq = __atomic_fetch_add(&g_seq, 1, __ATOMIC_RELAXED);
		c->log[c->nlog].d = d;
		c->nlog++;
	}
	rt_perturb(1);                           /* the callback takes a random time */
	vals[d] += 1;                            /* plain access: a second concurrent callback on the item is a race */
	if (vals[d] != 1)
		__atomic_fetch_or(&g_err, 2, __ATOMIC_RELAXED);
	__atomic_store_n(&c->busy, 0, __ATOMIC_RELAXED);
	return rc_tbl[d];
}

/* ------------------------------------------------------------------ hang detector */
static int task_stat(pid_t tid, char *state, unsigned long long *cpu)
{
	char path[64], buf[1024], *p;
	FILE *f;
	unsigned long ut = 0, st = 0;
	size_t n;
	snprintf(path, sizeof(path), "/proc/self/task/%d/stat", (int)tid);
	f = fopen(path, "r");
	if (!f)
		return -1;
	n = fread(buf, 1, sizeof(buf) - 1, f);
	fclose(f);
	buf[n] = 0;
	p = strrchr(buf, ')');
	if (!p || sscanf(p + 1, " %c %*d %*d %*d %*d %*d %*u %*u %*u %*u %*u %lu %lu", state, &ut, &st) != 3)
		return -1;
	*cpu = (unsigned long long)ut + st;
	return 0;
}

NO_TSAN static void dump_pool(FILE *f)
{
	thread_pool_impl_t *p = g_pool;
	work_item_t *it;
	int n;
	if (!p) {
		fputs(" pool=-", f);
		return;
	}
	fprintf(f, " st=%d nt=%zu nd=%zu ic=%zu", p->status, p->next_ticket, p->next_dequeue_ticket, p->item_count);
	for (n = 0, it = p->queue; it && n < 100000; it = it->next) ++n;
	fprintf(f, " Q#=%d", n);
	for (n = 0, it = p->done; it && n < 100000; it = it->next) ++n;
	fprintf(f, " D#=%d", n);
}

NO_TSAN static void *watchdog(void *arg)
{
	unsigned long last_act = 0;
	unsigned long long last_cpu = 0;
	int quiet = 0;
	(void)arg;
	for (;;) {
		struct timespec ts = { 0, 250 * 1000 * 1000 };
		unsigned long act;
		unsigned long long cpu = 0, c;
		int i, n, all_sleeping = 1;
		char st;
		nanosleep(&ts, NULL);
		if (!__atomic_load_n(&g_running, __ATOMIC_RELAXED)) {
			quiet = 0;
			continue;
		}
		act = __atomic_load_n(&g_activity, __ATOMIC_RELAXED);
		n = __atomic_load_n(&g_ntids, __ATOMIC_RELAXED);
		for (i = 0; i <= n && i <= MAXW; ++i) {
			pid_t t = __atomic_load_n(&g_tids[i], __ATOMIC_RELAXED);
			if (t == 0)
				continue;                       /* not started yet (then its creator is active) or gone */
			if (task_stat(t, &st, &c) != 0)
				continue;                       /* thread has exited */
			cpu += c;
			if (st != 'S')
				all_sleeping = 0;
		}
		if (act == last_act && cpu == last_cpu && all_sleeping)
			++quiet;
		else
			quiet = 0;
		last_act = act;
		last_cpu = cpu;
		if (quiet >= 16) {
			printf("HANG no thread of the pool made progress for 4 s, all sleeping:");
			dump_pool(stdout);
			printf(" script: %s\n", g_line);
			fflush(stdout);
			_exit(3);
		}
	}
	return NULL;
}

/* ------------------------------------------------------------------ scripts */
static int parse_rcspec(char *s)
{
	memset(rc_tbl, 0, sizeof(rc_tbl));
	if (strcmp(s, "-") == 0)
		return 0;
	while (*s) {
		char *e;
		long d = strtol(s, &e, 10), r;
		if (e == s || *e != ':' || d < 0 || d >= MAXITEM)
			return -1;
		s = e + 1;
		r = strtol(s, &e, 10);
		if (e == s)
			return -1;
		rc_tbl[d] = (int)r;
		s = e;
		if (*s == ',')
			++s;
		else if (*s)
			return -1;
	}
	return 0;
}

static int is_num(const char *s)
{
	if (!*s)
		return 0;
	for (; *s; ++s)
		if (*s < '0' || *s > '9')
			return 0;
	return 1;
}

static int log_sub[MAXLOG], n_sub, log_ret[MAXLOG], n_ret;

static void run_line(char *line)
{
	char *save = NULL, *tok;
	char *cmd = strtok_r(line, " \n", &save), *seed = strtok_r(NULL, " \n", &save), *ns = strtok_r(NULL, " \n", &save),
	     *rcs = strtok_r(NULL, " \n", &save), *pm = strtok_r(NULL, " \n", &save);
	thread_pool_t *p;
	int i, first = 1, destroyed = 0;
	if (!cmd || strcmp(cmd, "rt") != 0 || !seed || !ns || !rcs || !pm || !is_num(seed) || !is_num(ns) || !is_num(pm) ||
	    atoi(ns) < 1 || atoi(ns) >= MAXW || parse_rcspec(rcs) != 0) {
		puts("bad-op");
		return;
	}
	g_seed = strtoull(seed, NULL, 10);
	g_n = atoi(ns);
	g_pmode = atoi(pm);
	memset(ctxs, 0, sizeof(ctxs));
	memset(vals, 0, sizeof(vals));
	for (i = 0; i < MAXW; ++i)
		ctxs[i].idx = i;
	for (i = 1; i <= MAXW; ++i)
		__atomic_store_n(&g_tids[i], 0, __ATOMIC_RELAXED);
	g_ntids = 0;
	g_seq = g_err = 0;
	n_sub = n_ret = 0;
	rt_rng = mix(g_seed);
	rt_seeded = 1;
	__atomic_store_n(&g_tids[0], (pid_t)syscall(SYS_gettid), __ATOMIC_RELAXED);
	__atomic_store_n(&g_running, 1, __ATOMIC_RELAXED);
	p = thread_pool_create((size_t)g_n, cb);
	if (p == NULL) {
		puts("create-failed");
		__atomic_store_n(&g_running, 0, __ATOMIC_RELAXED);
		return;
	}
	g_pool = (thread_pool_impl_t *)p;
	for (i = 0; i < g_n; ++i)
		p->set_worker_ptr(p, (size_t)i, &ctxs[i]);
	fputs("r=", stdout);
	while ((tok = strtok_r(NULL, " \n", &save)) != NULL) {
		if (destroyed) {
			printf("%safter-destroy", first ? "" : ",");
			first = 0;
			continue;
		}
		if (tok[0] == 's' && is_num(tok + 1) && atoi(tok + 1) < MAXITEM) {
			int d = atoi(tok + 1), rc = p->submit(p, &vals[d]);
			if (rc == 0 && n_sub < MAXLOG)
				log_sub[n_sub++] = d;
			printf("%ssub:%d", first ? "" : ",", rc);
		} else if (strcmp(tok, "q") == 0) {
			unsigned int *r = p->dequeue(p);
			if (r == NULL) {
				printf("%sdeq:null", first ? "" : ",");
			} else {
				int d = (int)(r - vals);
				if (*r != 1)             /* plain read: must be ordered after the callback's write */
					__atomic_fetch_or(&g_err, 4, __ATOMIC_RELAXED);
				if (n_ret < MAXLOG)
					log_ret[n_ret++] = d;
				printf("%sdeq:%d", first ? "" : ",", d);
			}
		} else if (strcmp(tok, "g") == 0) {
			printf("%sst:%d", first ? "" : ",", p->get_status(p));
		} else if (strcmp(tok, "x") == 0) {
			p->destroy(p);
			g_pool = NULL;
			destroyed = 1;
			printf("%sdestroyed", first ? "" : ",");
		} else {
			printf("%sbad-op", first ? "" : ",");
		}
		first = 0;
		__atomic_fetch_add(&g_activity, 1, __ATOMIC_RELAXED);
	}
	if (first)
		fputc('-', stdout);
	if (!destroyed) {
		p->destroy(p);
		g_pool = NULL;
	}
	__atomic_store_n(&g_running, 0, __ATOMIC_RELAXED);
	/* all workers joined: their logs are ours now */
	fputs(" || sub=", stdout);
	if (n_sub == 0)
		fputc('-', stdout);
	for (i = 0; i < n_sub; ++i)
		printf("%s%d", i ? "," : "", log_sub[i]);
	{
		unsigned total = __atomic_load_n(&g_seq, __ATOMIC_RELAXED), s;
		int pos[MAXW], any = 0, w;
		memset(pos, 0, sizeof(pos));
		fputs(" cb=", stdout);
		for (s = 0; s < total; ++s) {
			for (w = 0; w < MAXW; ++w)
				if (pos[w] < ctxs[w].nlog && ctxs[w].log[pos[w]].seq == s)
					break;
			if (w == MAXW)
				continue;                       /* log overflow */
			printf("%s%d:%d", any ? "," : "", w, ctxs[w].log[pos[w]].d);
			pos[w]++;
			any = 1;
		}
		if (!any)
			fputc('-', stdout);
	}
	fputs(" ret=", stdout);
	if (n_ret == 0)
		fputc('-', stdout);
	for (i = 0; i < n_ret; ++i)
		printf("%s%d", i ? "," : "", log_ret[i]);
	{
		unsigned e = __atomic_load_n(&g_err, __ATOMIC_RELAXED);
		if (e)
			printf(" err=%s%s%s", e & 1 ? "ctx," : "", e & 2 ? "twice," : "", e & 4 ? "unpub," : "");
	}
	putchar('\n');
}

int main(void)
{
	static char line[1 << 16];
	pthread_t wd;
	if (pthread_create(&wd, NULL, watchdog, NULL) != 0) {
		fprintf(stderr, "h_c09rt: cannot start the watchdog\n");
		return 2;
	}
	while (fgets(line, sizeof(line), stdin)) {
		size_t n = strlen(line);
		if (n && line[n - 1] == '\n')
			line[n - 1] = 0;
		memcpy(g_line, line, n + 1);
		run_line(line);
		fflush(stdout);
	}
	return 0;
}
