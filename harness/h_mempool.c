/*
 * h_mempool.c -- the real lib/util/src/mempool.c (the pool allocator of /repo's DEFAULT configuration) behind the line
 * protocol of `sqfsmodel mempool` (lean/Driver/MemPool.lean, model lean/Sqfs/Model/MemPool.lean).
 *
 * mempool.c is #include'd from $VERIF_REPO (the static structs pool_t / mem_pool_t are read directly); its mmap, munmap
 * and calloc calls are redirected:
 *   - mmap answers come from the script (`maps <base|F> ...`): an address inside a fixed arena (so that the padding
 *     create_pool derives from the ABSOLUTE address is the same in every run and known to the model) or MAP_FAILED;
 *     (the repaired create_pool pads by the offset inside the block; the code before it by the absolute address);
 *     an exhausted queue is MAP_FAILED.  A handed-out region is filled with 0xA5 (nothing may rely on its contents
 *     beyond what the code itself initialises) and fenced by a page of 0xC5 on either side;
 *   - munmap checks address and length against what was mapped and the fences;
 *   - calloc fails on request (`create <n> F`).
 * assert() failures of mem_pool_free are results: __assert_fail is defined here and longjmps back.
 * Every object handed out is checked to be all-zero and then filled with 0xEE over the pool's full obj_size, so that an
 * object that overlaps the header, the bitmap, another object or the end of the mapping shows in the next answers.
 */
#define _GNU_SOURCE
#include <stdio.h>
#include <stdlib.h>
#include <string.h>
#include <stdint.h>
#include <stddef.h>
#include <stdarg.h>
#include <errno.h>
#include <setjmp.h>
#include <sys/mman.h>
#include "cpu_watchdog.h"

#define ARENA_BASE ((uintptr_t)0x200000000000ULL)
#define ARENA_SIZE ((size_t)512 << 20)
#define PAGE 4096
#define MAXMAP 64

static struct mapping { unsigned char *base; size_t len; int live; int id; } maps[MAXMAP * 4];
static int nmaps, next_id;
static struct { int fail; uintptr_t base; } mq[MAXMAP];
static int mq_len, mq_pos;
static int calloc_fail;
static char note[512];
static unsigned char *arena;

static void add_note(const char *fmt, ...)
{
	va_list ap; size_t l = strlen(note);
	va_start(ap, fmt);
	vsnprintf(note + l, sizeof(note) - l, fmt, ap);
	va_end(ap);
}

static void *h_mmap(void *addr, size_t len, int prot, int flags, int fd, off_t off)
{
	uintptr_t b; int i;
	if (addr != NULL || prot != (PROT_READ | PROT_WRITE) || flags != (MAP_PRIVATE | MAP_ANONYMOUS) || fd != -1 || off != 0)
		add_note(" bad-mmap-args");
	if (mq_pos >= mq_len || mq[mq_pos].fail) { if (mq_pos < mq_len) mq_pos++; errno = ENOMEM; return MAP_FAILED; }
	b = mq[mq_pos++].base;
	if (b % PAGE || b < ARENA_BASE + PAGE || b + len + PAGE > ARENA_BASE + ARENA_SIZE || len > ((size_t)80 << 20) || nmaps >= MAXMAP * 4) {
		add_note(" script-error:base-outside-arena"); errno = ENOMEM; return MAP_FAILED;
	}
	for (i = 0; i < nmaps; ++i)
		if (maps[i].live && b < (uintptr_t)maps[i].base + maps[i].len + 2 * PAGE && (uintptr_t)maps[i].base < b + len + 2 * PAGE) {
			add_note(" script-error:overlapping-base"); errno = ENOMEM; return MAP_FAILED;
		}
	memset((void *)(b - PAGE), 0xC5, PAGE);
	memset((void *)b, 0xA5, len);
	memset((void *)(b + len), 0xC5, PAGE);
	maps[nmaps].base = (unsigned char *)b; maps[nmaps].len = len; maps[nmaps].live = 1; maps[nmaps].id = next_id++;
	nmaps++;
	return (void *)b;
}

static int fence_ok(const struct mapping *m, int repair)
{
	size_t i; int ok = 1;
	for (i = 0; i < PAGE; ++i)
		if (*(m->base - PAGE + i) != 0xC5 || m->base[m->len + i] != 0xC5) { ok = 0; break; }
	if (!ok && repair) { memset(m->base - PAGE, 0xC5, PAGE); memset(m->base + m->len, 0xC5, PAGE); }
	return ok;
}

static char unmapped[1024];
static int h_munmap(void *addr, size_t len)
{
	int i; size_t l = strlen(unmapped);
	for (i = 0; i < nmaps; ++i)
		if (maps[i].live && maps[i].base == (unsigned char *)addr) {
			if (maps[i].len != len) add_note(" munmap-wrong-length:%zu", len);
			if (!fence_ok(&maps[i], 0)) add_note(" fence-damaged-at-munmap:%d", maps[i].id);
			maps[i].live = 0;
			memset(maps[i].base, 0xDD, maps[i].len);
			snprintf(unmapped + l, sizeof(unmapped) - l, "%s%d", l ? "," : "", maps[i].id);
			return 0;
		}
	add_note(" munmap-of-unknown-address");
	errno = EINVAL;
	return -1;
}

static void *h_calloc(size_t n, size_t sz) { if (calloc_fail) { calloc_fail = 0; return NULL; } return calloc(n, sz); }

static jmp_buf assert_jmp;
static int assert_armed;
static char assert_expr[128];
void __assert_fail(const char *expr, const char *file, unsigned int line, const char *func)
{
	(void)file; (void)func;
	if (!assert_armed) { fprintf(stderr, "assertion `%s' failed at line %u outside mem_pool_free\n", expr, line); abort(); }
	snprintf(assert_expr, sizeof(assert_expr), "%s", expr);
	longjmp(assert_jmp, 1);
}

#define mmap h_mmap
#define munmap h_munmap
#define calloc h_calloc
#include "lib/util/src/mempool.c"
#undef mmap
#undef munmap
#undef calloc

static mem_pool_t *mem;
static struct { int bid; size_t off; } handed[1 << 20];
static size_t nhanded;

static struct mapping *map_of(const void *p)
{
	int i;
	for (i = 0; i < nmaps; ++i)
		if (maps[i].live && (const unsigned char *)p >= maps[i].base - PAGE && (const unsigned char *)p < maps[i].base + maps[i].len + PAGE)
			return &maps[i];
	return NULL;
}

static struct mapping *map_by_id(int id)
{
	int i;
	for (i = 0; i < nmaps; ++i)
		if (maps[i].live && maps[i].id == id)
			return &maps[i];
	return NULL;
}

static void put_ids(char *dst, size_t n)
{
	pool_t *it; size_t l = 0;
	dst[0] = 0;
	for (it = mem->pool_list; it != NULL && l + 16 < n; it = it->next) {
		struct mapping *m = map_of(it);
		l += snprintf(dst + l, n - l, "%s%d", l ? "," : "", m ? m->id : -1);
	}
	if (!l) strcpy(dst, "-");
}

static void emit(const char *fmt, ...)
{
	va_list ap;
	va_start(ap, fmt);
	vprintf(fmt, ap);
	va_end(ap);
	fputs(note, stdout);
	note[0] = 0;
	putchar('\n');
	fflush(stdout);
}

static void do_free(unsigned char *p, struct mapping *m)
{
	assert_armed = 1;
	if (setjmp(assert_jmp)) {
		assert_armed = 0;
		if (strstr(assert_expr, "it != NULL")) emit("free assert noBlock");
		else if (strstr(assert_expr, "obj_size")) emit("free assert misaligned");
		else if (strstr(assert_expr, "bitmap")) emit("free assert notAllocated");
		else emit("free assert ?%s", assert_expr);
		return;
	}
	mem_pool_free(mem, p);
	assert_armed = 0;
	if (m == NULL) { emit("free ok outside-every-block"); return; }
	{
		pool_t *pl = (pool_t *)m->base;
		size_t idx = (size_t)(p - pl->data) / mem->obj_size;
		emit("free ok word=%zu:%08x free=%zu", idx / 32, pl->bitmap[idx / 32], pl->obj_free);
	}
}

int main(void)
{
	static char line[8192], ids[2048];
	static unsigned char dummy[64];
	verif_cpu_watchdog(120);
	arena = mmap((void *)ARENA_BASE, ARENA_SIZE, PROT_READ | PROT_WRITE, MAP_PRIVATE | MAP_ANONYMOUS | MAP_NORESERVE | MAP_FIXED_NOREPLACE, -1, 0);
	if (arena != (unsigned char *)ARENA_BASE) { printf("arena-failed %d\n", errno); return 3; }
	while (fgets(line, sizeof(line), stdin)) {
		char *tok[80]; int nt = 0; char *s;
		for (s = strtok(line, " \r\n"); s && nt < 80; s = strtok(NULL, " \r\n")) tok[nt++] = s;
		if (nt == 0) { emit("bad-op"); continue; }
		if (!strcmp(tok[0], "create") && (nt == 2 || (nt == 3 && !strcmp(tok[2], "F"))) && mem == NULL) {
			unsigned long long o = strtoull(tok[1], NULL, 10);
			if (o == 0 || o > ((size_t)1 << 21)) { emit("bad-op"); continue; }      /* obj_size 0: SIGFPE in the real code (model: sigfpe) */
			calloc_fail = nt == 3;
			mem = mem_pool_create((size_t)o);
			nhanded = 0; next_id = 0;
			if (mem == NULL) emit("create null");
			else emit("create ok obj=%zu pool=%zu count=%zu hdr=%zu", mem->obj_size, mem->pool_size, mem->bitmap_count, sizeof(pool_t));
		} else if (!strcmp(tok[0], "maps")) {
			int i, bad = 0;
			if (nt - 1 > MAXMAP) { emit("bad-op"); continue; }
			for (i = 1; i < nt; ++i) {
				char *e;
				mq[i - 1].fail = !strcmp(tok[i], "F");
				mq[i - 1].base = mq[i - 1].fail ? 0 : strtoull(tok[i], &e, 10);
				if (!mq[i - 1].fail && (*e || e == tok[i])) bad = 1;
			}
			if (bad) { mq_len = mq_pos = 0; emit("bad-op"); continue; }
			mq_len = nt - 1; mq_pos = 0;
			emit("maps %d", mq_len);
		} else if (!strcmp(tok[0], "alloc") && nt == 1 && mem != NULL) {
			unsigned char *p = mem_pool_allocate(mem);
			put_ids(ids, sizeof(ids));
			if (p == NULL) { emit("alloc null blocks=%s", ids); continue; }
			{
				struct mapping *m = map_of(p);
				pool_t *pl; size_t i, idx, off; int zero = 1, inside;
				if (m == NULL) { emit("alloc outside-every-mapping"); continue; }
				pl = (pool_t *)m->base;
				for (i = 0; i < mem->obj_size; ++i) if (p[i]) zero = 0;
				memset(p, 0xEE, mem->obj_size);
				off = (size_t)(p - m->base);
				idx = (size_t)(p - pl->data) / mem->obj_size;
				inside = p >= m->base && off + mem->obj_size <= m->len;
				if (!fence_ok(m, 1)) { if (inside) add_note(" fence-damaged"); }
				else if (!inside) add_note(" outside-but-fence-intact");
				if (nhanded < sizeof(handed) / sizeof(handed[0])) { handed[nhanded].bid = m->id; handed[nhanded].off = off; nhanded++; }
				emit("alloc %d %zu word=%zu:%08x free=%zu zero=%d inside=%d blocks=%s", m->id, off, idx / 32, pl->bitmap[idx / 32], pl->obj_free, zero, inside, ids);
			}
		} else if (!strcmp(tok[0], "free") && nt == 2 && mem != NULL) {
			size_t k = strtoull(tok[1], NULL, 10);
			struct mapping *m;
			if (k >= nhanded || !(m = map_by_id(handed[k].bid))) { emit("bad-op"); continue; }
			do_free(m->base + handed[k].off, m);
		} else if (!strcmp(tok[0], "freeraw") && nt == 3 && mem != NULL) {
			struct mapping *m = map_by_id(atoi(tok[1]));
			size_t off = strtoull(tok[2], NULL, 10);
			if (m == NULL || off >= m->len + PAGE) do_free(dummy + 8, NULL);     /* a pointer into no block at all: must assert before `m` is used */
			else do_free(m->base + off, m);
		} else if (!strcmp(tok[0], "state") && nt == 1 && mem != NULL) {
			pool_t *it; int first = 1;
			fputs("state", stdout);
			for (it = mem->pool_list; it != NULL; it = it->next) {
				struct mapping *m = map_of(it); size_t i;
				first = 0;
				if (m == NULL || (unsigned char *)it != m->base) { fputs(" ?", stdout); continue; }
				if (it->bitmap != it->blob) add_note(" bitmap-pointer-damaged:%d", m->id);
				if (!fence_ok(m, 1)) add_note(" fence-damaged:%d", m->id);
				printf(" %d:%llu:%zu:%zu:%zu:", m->id, (unsigned long long)(uintptr_t)m->base, (size_t)(it->data - m->base), (size_t)(it->limit - m->base), it->obj_free);
				if (mem->bitmap_count == 0) putchar('-');
				for (i = 0; i < mem->bitmap_count; ++i) printf("%08x", it->bitmap[i]);
			}
			if (first) fputs(" -", stdout);
			emit("");
		} else if (!strcmp(tok[0], "destroy") && nt == 1 && mem != NULL) {
			int i;
			unmapped[0] = 0;
			mem_pool_destroy(mem);
			mem = NULL;
			for (i = 0; i < nmaps; ++i) if (maps[i].live) { add_note(" block-leaked:%d", maps[i].id); maps[i].live = 0; }
			nmaps = 0;
			emit("destroy %s", unmapped[0] ? unmapped : "-");
		} else
			emit("bad-op");
	}
	if (mem != NULL) mem_pool_destroy(mem);
	return 0;
}
