/* C12: the real lib/tar/src/iterator.c plus read access to the private state of the tar iterator
 * (the fields the member stream `tar_istream_t` and the head of `it_next` keep up to date). */
#include "lib/tar/src/iterator.c"

/* sparse map rendered as off:count,off:count,... ("-" when empty) */
void c12_peek_tar(sqfs_dir_iterator_t *it, int *state, unsigned long long *record_size,
		  unsigned long long *file_size, unsigned long long *offset, char *sparse, size_t cap)
{
	tar_iterator_t *tar = (tar_iterator_t *)it;
	const sparse_map_t *sp;
	size_t n = 0;

	*state = tar->state; *record_size = tar->record_size; *file_size = tar->file_size; *offset = tar->offset;
	sparse[0] = '\0';
	for (sp = tar->current.sparse; sp != NULL; sp = sp->next) {
		int k = snprintf(sparse + n, cap - n, "%s%llu:%llu", n ? "," : "",
				 (unsigned long long)sp->offset, (unsigned long long)sp->count);
		if (k < 0 || (size_t)k >= cap - n) break;
		n += (size_t)k;
	}
	if (n == 0) snprintf(sparse, cap, "-");
}

/* the stream the iterator reads from and whether tar_open_stream wrapped it into a decompressor */
void c12_peek_tar_stream(sqfs_dir_iterator_t *it, sqfs_istream_t **stream, int *compressed)
{
	tar_iterator_t *tar = (tar_iterator_t *)it;
	*stream = tar->stream; *compressed = tar->compressed ? 1 : 0;
}
