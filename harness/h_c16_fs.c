/*
 * C16 harness, tree side: the real fstree_from_file.c on top of the real lib/fstree (fstree_init, fstree_add_generic,
 * mknode, insert_sorted, fstree_get_node_by_path) — the tree gensquashfs holds in memory after reading a pack file,
 * dumped in pre-order.  Same line protocol as `sqfsmodel c16` (op `fsbuild`, lean/Driver/C16.lean).
 *
 *   fsbuild <keepUid> <forceUid> <keepGid> <forceGid> <defUid> <defGid> <defMode> <defMtime> <hexcontent>
 *     → tree <n> {<depth> <name> <mode> <uid> <gid> <mtime> <linkcount> <flags: 1 implicit, 4 hard link> <rdev> <extra|NULL>}* st=<status>
 */
#include "bin/gensquashfs/src/fstree_from_file.c"
#include "hexio.h"

int glob_files(fstree_t *fs, const char *filename, size_t line_num, const sqfs_dir_entry_t *ent,
	       const char *basepath, unsigned int glob_flags, split_line_t *sep)
{
	(void)fs; (void)filename; (void)line_num; (void)ent; (void)basepath; (void)glob_flags; (void)sep;
	fputs("GLOBSTUB\n", stderr);
	return -1;
}

static int ends_with(const char *s, size_t n, const char *suf)
{
	size_t m = strlen(suf);
	return n >= m && memcmp(s + n - m, suf, m) == 0;
}

static const char *after_prefix(const char *s)
{
	/* "memfile: <digits>: " */
	if (strncmp(s, "memfile: ", 9) != 0) return NULL;
	s += 9;
	while (*s >= '0' && *s <= '9') ++s;
	if (s[0] != ':' || s[1] != ' ') return NULL;
	return s + 2;
}

static const char *classify(const char *err, size_t n)
{
	const char *m;
	if (ends_with(err, n, "GLOBSTUB\n")) return "h:glob";
	if (ends_with(err, n, ": too many arguments\n")) return "h:toomany";
	/* add_generic: "<file>: <line>: <name>: <strerror(errno)>" after a failing fstree_add_generic */
	if (ends_with(err, n, ": Invalid argument\n")) return "fs:inval";
	if (ends_with(err, n, ": Numerical result out of range\n")) return "fs:range";
	if (ends_with(err, n, ": Not a directory\n")) return "fs:notdir";
	if (ends_with(err, n, ": File exists\n")) return "fs:exist";
	if (ends_with(err, n, ": Too many links\n")) return "fs:mlink";
	if (ends_with(err, n, ": File name too long\n")) return "fs:nametoolong";
	m = after_prefix(err);
	if (m == NULL) return "unknown";
	if (!strncmp(m, "missing `\"`.", 12)) return "split:quote";
	if (!strncmp(m, "broken escape sequence.", 23)) return "split:esc";
	if (!strncmp(m, "cannot use / as argument for", 28)) return "h:root";
	if (!strncmp(m, "missing argument for", 20)) return "h:noextra";
	if (!strncmp(m, "uid & gid must be", 17)) return "h:uidgid";
	if (!strncmp(m, "mode must be", 12)) return "h:mode";
	if (!strncmp(m, "unknown entry type", 18)) return "h:keyword";
	if (!strncmp(m, "error in entry description", 26)) return "h:entry";
	if (!strncmp(m, "wrong number of arguments", 25)) return "h:devargs";
	if (!strncmp(m, "unknown device type", 19)) return "h:devtype";
	if (!strncmp(m, "error parsing device number", 27)) return "h:devnum";
	return "unknown";
}

static size_t count_nodes(const tree_node_t *n)
{
	size_t c = 1;
	if (S_ISDIR(n->mode)) {
		for (const tree_node_t *it = n->data.children; it != NULL; it = it->next)
			c += count_nodes(it);
	}
	return c;
}

static void dump(const tree_node_t *n, unsigned depth)
{
	const char *extra = NULL;
	unsigned long long rdev = 0;

	if (S_ISLNK(n->mode)) extra = n->data.target;
	else if (S_ISREG(n->mode)) extra = n->data.file.input_file;
	else if (S_ISBLK(n->mode) || S_ISCHR(n->mode)) rdev = n->data.devno;

	printf(" %u ", depth);
	hex_print(stdout, (const unsigned char *)n->name, strlen(n->name));
	printf(" %u %lu %lu %lu %lu %u %llu ", (unsigned)n->mode, (unsigned long)n->uid, (unsigned long)n->gid,
	       (unsigned long)n->mod_time, (unsigned long)n->link_count, (unsigned)(n->flags & (FLAG_DIR_CREATED_IMPLICITLY | FLAG_LINK_IS_HARD)), rdev);
	if (extra == NULL) fputs("NULL", stdout);
	else hex_print(stdout, (const unsigned char *)extra, strlen(extra));

	if (S_ISDIR(n->mode)) {
		for (const tree_node_t *it = n->data.children; it != NULL; it = it->next)
			dump(it, depth + 1);
	}
}

#define MAXTOK 16
static char line[1 << 24];
static char *tok[MAXTOK];

int main(void)
{
	while (fgets(line, sizeof(line), stdin)) {
		size_t nt = 0;
		char *p = strtok(line, " \n");
		while (p && nt < MAXTOK) { tok[nt++] = p; p = strtok(NULL, " \n"); }
		if (nt == 10 && !strcmp(tok[0], "fsbuild")) {
			unsigned char *buf;
			long n = hex_decode_tok(tok[9], &buf, 0);
			options_t opt;
			fstree_defaults_t defs;
			fstree_t fs;
			sqfs_istream_t *strm;
			char *ebuf = NULL;
			size_t elen = 0;
			FILE *emem, *saved_err = stderr;
			int rc;
			if (n < 0) { puts("bad-op"); continue; }
			memset(&opt, 0, sizeof(opt));
			memset(&defs, 0, sizeof(defs));
			if (!strcmp(tok[1], "1")) opt.dirscan_flags |= DIR_SCAN_KEEP_UID;
			if (!strcmp(tok[3], "1")) opt.dirscan_flags |= DIR_SCAN_KEEP_GID;
			opt.force_uid_value = (unsigned)strtoul(tok[2], NULL, 10);
			opt.force_gid_value = (unsigned)strtoul(tok[4], NULL, 10);
			defs.uid = (sqfs_u32)strtoul(tok[5], NULL, 10);
			defs.gid = (sqfs_u32)strtoul(tok[6], NULL, 10);
			defs.mode = (sqfs_u16)strtoul(tok[7], NULL, 10);
			defs.mtime = (sqfs_u32)strtoul(tok[8], NULL, 10);
			if (fstree_init(&fs, &defs) != 0) abort();
			strm = istream_memory_create("memfile", 1 + (size_t)n % 61, buf, (size_t)n);
			emem = open_memstream(&ebuf, &elen);
			if (!strm || !emem) abort();
			stderr = emem;
			rc = fstree_from_file_stream(&fs, strm, &opt);
			stderr = saved_err;
			fclose(emem);
			sqfs_drop(strm);
			printf("tree %zu", count_nodes(fs.root));
			dump(fs.root, 0);
			printf(" st=%s\n", rc == 0 ? "ok" : classify(ebuf, elen));
			fstree_cleanup(&fs);
			free(ebuf);
			free(buf);
		} else puts("bad-op");
		fflush(stdout);
	}
	return 0;
}
