/*
 * C09, block processor on the controlled pool: the real lib/sqfs/src/block_processor/{frontend,backend,
 * block_processor}.c + block_writer + frag_table drive the real threadpool.c (compiled with -include shim_sched.h)
 * under a seeded random schedule of the cooperative scheduler (harness/sched.c).  One workload per line:
 *
 *   bp <nworkers> <max_backlog> <sched-seed> <blocksize> <file>*        file = <size>:<kind>
 *      kind r random bytes | c compressible | z zeros (sparse) | d same content as the previous r/c/e file
 *           | e random, but the first byte is 0xEE: the fake compressor FAILS on a block starting with 0xEE
 *   bpn …  the same, but a block starting with 0xEE is merely incompressible (what the output looks like when the
 *          failure goes unnoticed)
 *
 * The whole client (create processor, begin/append/end per file, finish, destroy) runs as modelled thread 0;
 * the workers are created by thread_pool_create.  The fake compressor has a scheduling point in the middle of
 * do_block (so callbacks of different workers overlap) and a busy flag per compressor *object*: since the block
 * processor gives every worker its own copy (sqfs_copy in block_processor.c), the flag is never found set.
 * With probability 1/4 (decided by the seed) the schedule also contains spurious wake-ups.  Prints
 *   rc=<first non-zero API result or 0> at=<call that failed or -> dl=<1 if the scheduler found no runnable
 *   thread while one was still alive> steps=<n> sz=<output size> out=<fnv1a of output bytes> ino=<fnv1a over the
 *   inodes' sizes and block lists> mtx=<1 if a mutex was held at a scheduling point> cerr=<SQFS_ERROR_COMPRESSOR>
 *   shared=<1 if two overlapping do_block calls used the same compressor object> cfail=<number of do_block calls
 *   that returned an error> pst=<pool->get_status() after finish, before the processor is destroyed>
 *   spur=<spurious wake-ups taken>
 * When linked against a library built with threadpool_serial.c (no scheduler involvement: thread 0 never blocks)
 * the same line gives the reference result.
 */
#include "config.h"
#include "sqfs/block_processor.h"
#include "sqfs/block_writer.h"
#include "sqfs/frag_table.h"
#include "sqfs/compressor.h"
#include "sqfs/inode.h"
#include "sqfs/error.h"
#include "sqfs/block.h"
#include "sqfs/io.h"
#include "lib/sqfs/src/block_processor/internal.h"

#include <stdio.h>
#include <stdlib.h>
#include <string.h>
#include <stdint.h>

#ifndef VERIF_SHIM_SCHED_H
#include "shim_sched.h"
#endif

/* ------------------------------------------------------------------ fake compressor */
typedef struct { sqfs_compressor_t base; int busy; } fake_cmp_t;
static int g_shared, g_cmp_failed, g_pool_status, g_nspur;

static void fake_get_configuration(const sqfs_compressor_t *c, sqfs_compressor_config_t *cfg)
{
	(void)c;
	memset(cfg, 0, sizeof(*cfg));
}
static int fake_write_options(sqfs_compressor_t *c, sqfs_file_t *f) { (void)c; (void)f; return 0; }
static int fake_read_options(sqfs_compressor_t *c, sqfs_file_t *f) { (void)c; (void)f; return 0; }

static int g_nofail;             /* `bpn` lines: a block starting with 0xEE is merely incompressible */

static sqfs_s32 fake_do_block_inner(const sqfs_u8 *in, sqfs_u32 size, sqfs_u8 *out, sqfs_u32 outsize)
{
	sqfs_u32 i;
	if (size > 0 && in[0] == 0xEE) {
		if (g_nofail)
			return 0;
		++g_cmp_failed;
		return SQFS_ERROR_COMPRESSOR;
	}
	if (size < 8 || size / 2 > outsize)
		return 0;
	for (i = 1; i < size; i += 2)
		if (in[i] != 0)
			return 0;
	for (i = 0; i < size; i += 2)
		out[i / 2] = in[i];
	return (sqfs_s32)((size + 1) / 2);
}

static sqfs_s32 fake_do_block(sqfs_compressor_t *c, const sqfs_u8 *in, sqfs_u32 size, sqfs_u8 *out, sqfs_u32 outsize)
{
	fake_cmp_t *fc = (fake_cmp_t *)c;
	sqfs_s32 r;
	if (fc->busy)
		g_shared = 1;                    /* another worker is inside do_block of this very object */
	fc->busy = 1;
	if (vs_self() > 0)
		vs_yield("cmp");                 /* a worker can be pre-empted in the middle of a block */
	r = fake_do_block_inner(in, size, out, outsize);
	fc->busy = 0;
	return r;
}

static void fake_destroy(sqfs_object_t *o) { free(o); }
static sqfs_object_t *fake_copy(const sqfs_object_t *o)
{
	fake_cmp_t *n = malloc(sizeof(*n));
	if (n) {
		memcpy(n, o, sizeof(*n));
		n->busy = 0;
	}
	return (sqfs_object_t *)n;
}

static sqfs_compressor_t *fake_cmp_create(void)
{
	fake_cmp_t *c = calloc(1, sizeof(*c));
	if (!c)
		abort();
	sqfs_object_init(c, fake_destroy, fake_copy);
	c->base.get_configuration = fake_get_configuration;
	c->base.write_options = fake_write_options;
	c->base.read_options = fake_read_options;
	c->base.do_block = fake_do_block;
	return &c->base;
}

/* ------------------------------------------------------------------ memory file */
typedef struct { sqfs_file_t base; unsigned char *buf; size_t size, cap; } mem_file_t;

static int mf_read_at(sqfs_file_t *f, sqfs_u64 off, void *b, size_t n)
{
	mem_file_t *m = (mem_file_t *)f;
	if (off > m->size || n > m->size - off)
		return SQFS_ERROR_OUT_OF_BOUNDS;
	memcpy(b, m->buf + off, n);
	return 0;
}
static int mf_grow(mem_file_t *m, size_t want)
{
	if (want > m->cap) {
		size_t nc = m->cap ? m->cap : 4096;
		unsigned char *nb;
		while (nc < want)
			nc *= 2;
		nb = realloc(m->buf, nc);
		if (!nb)
			return SQFS_ERROR_ALLOC;
		memset(nb + m->cap, 0, nc - m->cap);
		m->buf = nb;
		m->cap = nc;
	}
	return 0;
}
static int mf_write_at(sqfs_file_t *f, sqfs_u64 off, const void *b, size_t n)
{
	mem_file_t *m = (mem_file_t *)f;
	if (mf_grow(m, off + n))
		return SQFS_ERROR_ALLOC;
	memcpy(m->buf + off, b, n);
	if (off + n > m->size)
		m->size = off + n;
	return 0;
}
static sqfs_u64 mf_get_size(const sqfs_file_t *f) { return ((const mem_file_t *)f)->size; }
static int mf_truncate(sqfs_file_t *f, sqfs_u64 sz)
{
	mem_file_t *m = (mem_file_t *)f;
	if (mf_grow(m, sz))
		return SQFS_ERROR_ALLOC;
	if (sz > m->size)
		memset(m->buf + m->size, 0, sz - m->size);
	m->size = sz;
	return 0;
}
static const char *mf_name(sqfs_file_t *f) { (void)f; return "mem"; }
static void mf_destroy(sqfs_object_t *o) { free(((mem_file_t *)o)->buf); free(o); }

static mem_file_t *mem_file_create(void)
{
	mem_file_t *m = calloc(1, sizeof(*m));
	if (!m)
		abort();
	sqfs_object_init(m, mf_destroy, NULL);
	m->base.read_at = mf_read_at;
	m->base.write_at = mf_write_at;
	m->base.get_size = mf_get_size;
	m->base.truncate = mf_truncate;
	m->base.get_filename = mf_name;
	return m;
}

/* ------------------------------------------------------------------ workload */
#define MAXFILES 64
static struct { size_t size; char kind; } files[MAXFILES];
static int nfiles, g_workers, g_backlog;
static size_t g_blocksize;
static int g_rc;
static const char *g_at;
static uint64_t h_out, h_ino;
static size_t out_size;

static uint64_t fnv(uint64_t h, const void *p, size_t n)
{
	const unsigned char *b = p;
	size_t i;
	for (i = 0; i < n; ++i)
		h = (h ^ b[i]) * 1099511628211ULL;
	return h;
}

static void fill(unsigned char *b, size_t n, char kind, unsigned seed)
{
	size_t i;
	uint64_t x = seed * 2654435761u + 12345;
	for (i = 0; i < n; ++i) {
		x = x * 6364136223846793005ULL + 1442695040888963407ULL;
		b[i] = (unsigned char)(x >> 56);
		if (b[i] == 0xEE)
			b[i] = 0xEF;
		if (kind == 'c' && (i & 1))
			b[i] = 0;
		if (kind == 'z')
			b[i] = 0;
	}
	if (kind == 'e' && n > 0)
		b[0] = 0xEE;
}

#define CALL(name, expr) do { int r_ = (expr); if (r_ != 0 && g_rc == 0) { g_rc = r_; g_at = name; } } while (0)

static void *client(void *arg)
{
	sqfs_compressor_t *cmp = fake_cmp_create();
	mem_file_t *mf = mem_file_create();
	sqfs_block_writer_t *wr = sqfs_block_writer_create(&mf->base, 0);
	sqfs_frag_table_t *tbl = sqfs_frag_table_create(0);
	sqfs_block_processor_t *proc;
	sqfs_inode_generic_t *inodes[MAXFILES];
	unsigned char *buf = malloc(1 << 20);
	unsigned seed = 1, lastseed = 1;
	char lastkind = 'r';
	int i;
	(void)arg;
	memset(inodes, 0, sizeof(inodes));
	proc = sqfs_block_processor_create(g_blocksize, cmp, (unsigned)g_workers, (size_t)g_backlog, wr, tbl);
	if (!proc || !wr || !tbl || !buf) {
		g_rc = -999;
		g_at = "create";
		return NULL;
	}
	for (i = 0; i < nfiles && g_rc == 0; ++i) {
		size_t left = files[i].size;
		char kind = files[i].kind;
		unsigned s = ++seed;
		if (kind == 'd') {
			kind = lastkind;
			s = lastseed;
		} else {
			lastkind = kind;
			lastseed = s;
		}
		CALL("begin", sqfs_block_processor_begin_file(proc, &inodes[i], NULL, 0));
		if (g_rc)
			break;
		fill(buf, left < (1 << 20) ? left : (1 << 20), kind, s);
		/* append in uneven pieces */
		{
			size_t off = 0, piece = 1000 + 37 * (size_t)i;
			while (off < left && g_rc == 0) {
				size_t n = left - off < piece ? left - off : piece;
				CALL("append", sqfs_block_processor_append(proc, buf + off, n));
				off += n;
			}
		}
		if (g_rc == 0)
			CALL("end", sqfs_block_processor_end_file(proc));
	}
	if (g_rc == 0)
		CALL("finish", sqfs_block_processor_finish(proc));
	h_ino = 1469598103934665603ULL;
	if (g_rc == 0) {
		for (i = 0; i < nfiles; ++i) {
			sqfs_u64 fsz = 0, loc = 0;
			sqfs_u32 fi = 0, fo = 0;
			size_t nb, k;
			if (!inodes[i])
				continue;
			sqfs_inode_get_file_size(inodes[i], &fsz);
			sqfs_inode_get_file_block_start(inodes[i], &loc);
			sqfs_inode_get_frag_location(inodes[i], &fi, &fo);
			nb = sqfs_inode_get_file_block_count(inodes[i]);
			h_ino = fnv(h_ino, &fsz, sizeof(fsz));
			h_ino = fnv(h_ino, &loc, sizeof(loc));
			h_ino = fnv(h_ino, &fi, sizeof(fi));
			h_ino = fnv(h_ino, &fo, sizeof(fo));
			for (k = 0; k < nb; ++k)
				h_ino = fnv(h_ino, &inodes[i]->extra[k], sizeof(inodes[i]->extra[k]));
		}
	}
	g_pool_status = proc->pool->get_status(proc->pool);
	sqfs_drop(proc);               /* destroys the pool: joins the workers */
	out_size = mf->size;
	h_out = fnv(1469598103934665603ULL, mf->buf, mf->size);
	for (i = 0; i < nfiles; ++i)
		free(inodes[i]);
	sqfs_drop(wr);
	sqfs_drop(tbl);
	sqfs_drop(mf);
	sqfs_drop(cmp);
	free(buf);
	return NULL;
}

static void run_line(char *line)
{
	char *save = NULL, *tok;
	char *cmd = strtok_r(line, " \n", &save);
	char *a1 = strtok_r(NULL, " \n", &save), *a2 = strtok_r(NULL, " \n", &save), *a3 = strtok_r(NULL, " \n", &save),
	     *a4 = strtok_r(NULL, " \n", &save);
	uint64_t x;
	unsigned long steps0;
	int dl = 0, mtx = 0, guard = 0, with_spur;
	if (!cmd || (strcmp(cmd, "bp") != 0 && strcmp(cmd, "bpn") != 0) || !a1 || !a2 || !a3 || !a4) {
		puts("bad-op");
		return;
	}
	g_nofail = strcmp(cmd, "bpn") == 0;
	g_workers = atoi(a1);
	g_backlog = atoi(a2);
	x = strtoull(a3, NULL, 10) * 2862933555777941757ULL + 3037000493ULL;
	with_spur = strtoull(a3, NULL, 10) % 4 == 1;
	g_blocksize = (size_t)atoi(a4);
	nfiles = 0;
	while ((tok = strtok_r(NULL, " \n", &save)) != NULL && nfiles < MAXFILES) {
		char *c = strchr(tok, ':');
		if (!c) {
			puts("bad-op");
			return;
		}
		files[nfiles].size = (size_t)atol(tok);
		if (files[nfiles].size > (1 << 20))
			files[nfiles].size = 1 << 20;
		files[nfiles].kind = c[1];
		++nfiles;
	}
	g_rc = 0;
	g_shared = g_cmp_failed = g_nspur = 0;
	g_pool_status = 12345;
	g_at = "-";
	h_out = h_ino = 0;
	out_size = 0;
	vs_reset();
	steps0 = vs_steps();
	vs_spawn(client, NULL);
	for (;;) {
		int en[64], n = 0, i, nt = vs_nthreads(), live = 0;
		for (i = 0; i < nt && i < 64; ++i) {
			if (vs_kind(i) != VS_EXITED)
				live = 1;
			if (vs_enabled(i))
				en[n++] = i;
		}
		if (vs_mutexes_held() != 0)
			mtx = 1;
		if (n == 0) {
			dl = live;
			break;
		}
		x = x * 6364136223846793005ULL + 1442695040888963407ULL;
		if (with_spur && (x >> 33) % 100 < 8) {
			int cand[64], m = 0;
			for (i = 0; i < nt && i < 64; ++i)
				if (vs_kind(i) == VS_COND && !vs_signalled(i))
					cand[m++] = i;
			x = x * 6364136223846793005ULL + 1442695040888963407ULL;
			if (m > 0 && vs_step(cand[(x >> 33) % (unsigned)m], 1) == 0) {
				++g_nspur;
				continue;
			}
		}
		x = x * 6364136223846793005ULL + 1442695040888963407ULL;
		vs_step(en[(x >> 33) % (unsigned)n], 0);
		if (++guard > 50000000)
			break;
	}
	printf("rc=%d at=%s dl=%d steps=%lu sz=%zu out=%016llx ino=%016llx mtx=%d cerr=%d shared=%d cfail=%d pst=%d spur=%d\n", g_rc, g_at, dl,
	       vs_steps() - steps0, out_size, (unsigned long long)h_out, (unsigned long long)h_ino, mtx, (int)SQFS_ERROR_COMPRESSOR,
	       g_shared, g_cmp_failed, g_pool_status, g_nspur);
	vs_kill_all();
}

int main(void)
{
	static char line[1 << 16];
	while (fgets(line, sizeof(line), stdin)) {
		run_line(line);
		fflush(stdout);
	}
	return 0;
}
