/*
 * C02, tool level: LD_PRELOAD library that fakes the wall clock (C02_FAKE_TIME = seconds since the epoch) behind every libc entry
 * point that reads it: time(), gettimeofday(), clock_gettime(CLOCK_REALTIME / CLOCK_REALTIME_COARSE / CLOCK_TAI), timespec_get()
 * (which glibc implements on an internal clock_gettime, so hooking clock_gettime alone does not cover it), ftime() and the 64 bit
 * time_t aliases of 32 bit targets.  The monotonic / CPU time clocks stay real.  If the packers consulted the clock, the image
 * would change with C02_FAKE_TIME.
 *
 * C02_TIME_LOG is an append-only record file, one line per event, each written with a single write(2) on an O_APPEND descriptor:
 *     bound pid=<pid> exe=<basename of /proc/self/exe> fake=<seconds>      when the library is loaded (constructor)
 *     read fn=<entry point> pid=<pid> exe=<basename>                       for every intercepted read of the wall clock
 * The `bound` line is the proof that the library was loaded into that very process; the check requires it for every packer run (a
 * count of 0 reads is also what a library that was never loaded produces).  harness/c02_time_selftest.c calls every entry point.
 * Not covered (stated in the evidence): a raw syscall(SYS_clock_gettime) or a direct vDSO call; the packers contain neither.
 */
#define _GNU_SOURCE
#include <dlfcn.h>
#include <fcntl.h>
#include <stdio.h>
#include <stdlib.h>
#include <string.h>
#include <sys/time.h>
#include <sys/timeb.h>
#include <time.h>
#include <unistd.h>

static char exe_name[128] = "?";

static long long fake(void)
{
	const char *e = getenv("C02_FAKE_TIME");
	return e ? atoll(e) : 1234567890LL;
}

static void record(const char *line, size_t n)
{
	const char *p = getenv("C02_TIME_LOG");
	int fd;
	if (!p || !*p) return;
	fd = open(p, O_WRONLY | O_CREAT | O_APPEND | O_CLOEXEC, 0644);
	if (fd < 0) return;
	if (write(fd, line, n) < 0) { /* the check notices the missing record */ }
	close(fd);
}

static void note(const char *fn)
{
	char buf[256];
	int n = snprintf(buf, sizeof(buf), "read fn=%s pid=%ld exe=%s\n", fn, (long)getpid(), exe_name);
	if (n > 0) record(buf, (size_t)n < sizeof(buf) ? (size_t)n : sizeof(buf) - 1);
}

__attribute__((constructor)) static void init(void)
{
	char path[4096], buf[256];
	ssize_t k = readlink("/proc/self/exe", path, sizeof(path) - 1);
	int n;
	if (k > 0) {
		const char *b;
		path[k] = 0;
		b = strrchr(path, '/');
		b = b ? b + 1 : path;
		snprintf(exe_name, sizeof(exe_name), "%s", b);
		for (char *c = exe_name; *c; ++c)
			if (*c == ' ' || *c == '\n' || *c == '\t') *c = '_';
	}
	n = snprintf(buf, sizeof(buf), "bound pid=%ld exe=%s fake=%lld\n", (long)getpid(), exe_name, fake());
	if (n > 0) record(buf, (size_t)n < sizeof(buf) ? (size_t)n : sizeof(buf) - 1);
}

static int is_wall(clockid_t id)
{
	return id == CLOCK_REALTIME
#ifdef CLOCK_REALTIME_COARSE
		|| id == CLOCK_REALTIME_COARSE
#endif
#ifdef CLOCK_TAI
		|| id == CLOCK_TAI
#endif
		;
}

time_t time(time_t *t)
{
	time_t v = (time_t)fake();
	note("time");
	if (t) *t = v;
	return v;
}

int gettimeofday(struct timeval *tv, void *tz)
{
	(void)tz;
	note("gettimeofday");
	if (tv) { tv->tv_sec = (time_t)fake(); tv->tv_usec = 0; }
	return 0;
}

int clock_gettime(clockid_t id, struct timespec *ts)
{
	static int (*real)(clockid_t, struct timespec *);
	if (is_wall(id)) {
		note("clock_gettime");
		if (ts) { ts->tv_sec = (time_t)fake(); ts->tv_nsec = 0; }
		return 0;
	}
	if (!real) real = (int (*)(clockid_t, struct timespec *))dlsym(RTLD_NEXT, "clock_gettime");
	return real(id, ts);
}

int timespec_get(struct timespec *ts, int base)
{
	if (base != TIME_UTC) return 0;
	note("timespec_get");
	if (ts) { ts->tv_sec = (time_t)fake(); ts->tv_nsec = 0; }
	return base;
}

int ftime(struct timeb *tb)
{
	note("ftime");
	if (tb) { memset(tb, 0, sizeof(*tb)); tb->time = (time_t)fake(); }
	return 0;
}

#if defined(__GLIBC__) && __TIMESIZE == 32
/* 32 bit targets built with _TIME_BITS=64 call these instead */
struct c02_ts64 { long long tv_sec; int tv_nsec; int pad; };
struct c02_tv64 { long long tv_sec; long long tv_usec; };
long long __time64(long long *t) { long long v = fake(); note("__time64"); if (t) *t = v; return v; }
int __gettimeofday64(struct c02_tv64 *tv, void *tz) { (void)tz; note("__gettimeofday64"); if (tv) { tv->tv_sec = fake(); tv->tv_usec = 0; } return 0; }
int __clock_gettime64(clockid_t id, struct c02_ts64 *ts)
{
	static int (*real)(clockid_t, struct c02_ts64 *);
	if (is_wall(id)) { note("__clock_gettime64"); if (ts) { ts->tv_sec = fake(); ts->tv_nsec = 0; } return 0; }
	if (!real) real = (int (*)(clockid_t, struct c02_ts64 *))dlsym(RTLD_NEXT, "__clock_gettime64");
	return real(id, ts);
}
int __timespec_get64(struct c02_ts64 *ts, int base)
{
	if (base != TIME_UTC) return 0;
	note("__timespec_get64");
	if (ts) { ts->tv_sec = fake(); ts->tv_nsec = 0; }
	return base;
}
#endif
