/*
 * C02, tool level: LD_PRELOAD library that fakes the wall clock (C02_FAKE_TIME = seconds since the epoch) for
 * time(), gettimeofday() and clock_gettime(CLOCK_REALTIME).  If the packers consulted the clock, the image would
 * change with C02_FAKE_TIME.  Every call is counted; the count is written to C02_TIME_LOG at exit.
 */
#define _GNU_SOURCE
#include <dlfcn.h>
#include <stdio.h>
#include <stdlib.h>
#include <sys/time.h>
#include <time.h>

static long calls;
static time_t fake(void)
{
	const char *e = getenv("C02_FAKE_TIME");
	return e ? (time_t)atoll(e) : (time_t)1234567890;
}
static void dump(void)
{
	const char *p = getenv("C02_TIME_LOG");
	FILE *f;
	if (!p) return;
	f = fopen(p, "w");
	if (f) { fprintf(f, "%ld\n", calls); fclose(f); }
}
__attribute__((constructor)) static void init(void) { atexit(dump); }

time_t time(time_t *t)
{
	time_t v = fake();
	++calls;
	if (t) *t = v;
	return v;
}
int gettimeofday(struct timeval *tv, void *tz)
{
	(void)tz;
	++calls;
	if (tv) { tv->tv_sec = fake(); tv->tv_usec = 0; }
	return 0;
}
int clock_gettime(clockid_t id, struct timespec *ts)
{
	static int (*real)(clockid_t, struct timespec *);
	if (!real) real = (int (*)(clockid_t, struct timespec *))dlsym(RTLD_NEXT, "clock_gettime");
	if (id == CLOCK_REALTIME) {
		++calls;
		if (ts) { ts->tv_sec = fake(); ts->tv_nsec = 0; }
		return 0;
	}
	return real(id, ts);
}
