/*
 * C10 harness, part 3: whole-image histories.  A real SquashFS image (written by the working tree's gensquashfs,
 * possibly damaged afterwards) is loaded into the in-memory file of h_c10.c; `img open` creates a long-lived set
 * of readers (dir reader, data reader, xattr reader, id table, their own compressor).  Every query op is run on
 * that set and on a set created just for the query; both answers are printed as "<history> || <fresh>".
 *
 *   imgfile <path>             -> ok <len>          (like `file`, content taken from a file)
 *   img open                   -> st=<..> (status of each load step)
 *   img walk                   -> refs=<ref:type:xattr_idx;...>   (enumerated with a throw-away reader set)
 *   img inode <ref> | ls <ref> | path <hexpath> | read <ref> <off> <size> | cat <ref> [order] | xattr <idx> | xattrkv <idx> | id <idx>
 *       (order: the three file-data APIs r = positional read, b = blocks + fragment, s = stream, in the order given, default rbs)
 *   img frag <ref> | stream <ref> | block <ref> <index>      (one file-data API alone: finds whatever an earlier op left cached)
 *   img lsopen <slot> <ref>    -> st=<..>   open a directory on the long-lived reader set, cursor kept in <slot>
 *   img lsnext <slot>          -> one sqfs_dir_reader_read with that cursor on the long-lived set || on a fresh set with a copy
 *   img reload                 -> sqfs_data_reader_load_fragment_table again on the long-lived data reader
 *   img resuper <field>=<u64> ...  -> st=ok xattr=<..> ids=<..> frag=<..>
 *       re-load on LIVE objects: the fields of the super block (noxattr, nofrag = flag bits; xattr_start, id_start, id_count,
 *       frag_start, frag_count, bytes_used; reset=1 restores the image's own super) are changed and sqfs_xattr_reader_load,
 *       sqfs_id_table_read and sqfs_data_reader_load_fragment_table are called again on the long-lived xattr reader, id table
 *       and data reader.  From then on every query compares them with objects created fresh and loaded ONCE with the changed
 *       super (a reader whose load failed is kept and queried on both sides).  The directory reader has no re-load call: on
 *       both sides it is always created from the image's own super.
 */
#include "config.h"
#include "sqfs/predef.h"
#include "sqfs/io.h"
#include "sqfs/compressor.h"
#include "sqfs/data_reader.h"
#include "sqfs/dir_reader.h"
#include "sqfs/xattr_reader.h"
#include "sqfs/id_table.h"
#include "sqfs/inode.h"
#include "sqfs/super.h"
#include "sqfs/xattr.h"
#include "sqfs/dir.h"
#include "sqfs/error.h"
#include "hexio.h"
#include <stdio.h>
#include <stdlib.h>
#include <string.h>

sqfs_file_t *h_c10_memfile(void);

typedef struct {
	sqfs_compressor_t *cmp;
	sqfs_dir_reader_t *dr;
	sqfs_data_reader_t *data;
	sqfs_xattr_reader_t *xr;
	sqfs_id_table_t *idt;
	int st_cmp, st_xr, st_idt, st_frag;
} rset_t;

static sqfs_super_t g_super;
static sqfs_super_t g_super0;	/* the image's own super: what every directory reader is created from */
static int g_keep;		/* after `img resuper`: objects whose load failed are kept and queried */
static int g_super_ok;
static rset_t g_hist;
static int g_hist_ok;

static unsigned long long fnv(unsigned long long h, const void *p, size_t n)
{
	const unsigned char *c = p;
	size_t i;
	for (i = 0; i < n; ++i) { h ^= c[i]; h *= 1099511628211ULL; }
	return h;
}
#define FNV0 1469598103934665603ULL

static void rset_destroy(rset_t *r)
{
	sqfs_drop(r->dr); sqfs_drop(r->data); sqfs_drop(r->xr); sqfs_drop(r->idt); sqfs_drop(r->cmp);
	memset(r, 0, sizeof(*r));
}

static int rset_create(rset_t *r)
{
	sqfs_compressor_config_t cfg;
	sqfs_file_t *file = h_c10_memfile();
	memset(r, 0, sizeof(*r));
	sqfs_compressor_config_init(&cfg, g_super.compression_id, g_super.block_size, SQFS_COMP_FLAG_UNCOMPRESS);
	r->st_cmp = sqfs_compressor_create(&cfg, &r->cmp);
	if (r->st_cmp) { r->cmp = NULL; return -1; }
	r->st_xr = 1; r->st_idt = 1; r->st_frag = 1;
	if (g_keep || !(g_super.flags & SQFS_FLAG_NO_XATTRS)) {
		r->xr = sqfs_xattr_reader_create(0);
		if (!r->xr) abort();
		r->st_xr = sqfs_xattr_reader_load(r->xr, &g_super, file, r->cmp);
		if (r->st_xr && !g_keep) r->xr = sqfs_drop(r->xr);
	}
	r->idt = sqfs_id_table_create(0);
	if (!r->idt) abort();
	r->st_idt = sqfs_id_table_read(r->idt, file, &g_super, r->cmp);
	r->dr = sqfs_dir_reader_create(&g_super0, r->cmp, file, 0);
	if (!r->dr) abort();
	r->data = sqfs_data_reader_create(file, g_super.block_size, r->cmp, 0);
	if (!r->data) abort();
	r->st_frag = sqfs_data_reader_load_fragment_table(r->data, &g_super);
	return 0;
}

static unsigned long long hash_inode(const sqfs_inode_generic_t *ino)
{
	unsigned long long h = FNV0;
	h = fnv(h, &ino->base, sizeof(ino->base));
	h = fnv(h, &ino->payload_bytes_used, sizeof(ino->payload_bytes_used));
	h = fnv(h, &ino->data, sizeof(ino->data));
	h = fnv(h, ino->extra, ino->payload_bytes_used);
	return h;
}

static int is_file(const sqfs_inode_generic_t *i) { return i->base.type == SQFS_INODE_FILE || i->base.type == SQFS_INODE_EXT_FILE; }

static void q_inode(rset_t *r, sqfs_u64 ref)
{
	sqfs_inode_generic_t *ino = NULL;
	int st = sqfs_dir_reader_get_inode(r->dr, ref, &ino);
	if (st) { printf("st=%d", st); return; }
	printf("st=0 type=%u h=%016llx", ino->base.type, hash_inode(ino));
	sqfs_free(ino);
}

static void q_ls(rset_t *r, sqfs_u64 ref)
{
	sqfs_inode_generic_t *ino = NULL;
	sqfs_dir_reader_state_t state;
	unsigned long long h = FNV0;
	unsigned long n = 0;
	int st = sqfs_dir_reader_get_inode(r->dr, ref, &ino);
	if (st) { printf("inode=%d", st); return; }
	st = sqfs_dir_reader_open_dir(r->dr, ino, &state, 0);
	sqfs_free(ino);
	if (st) { printf("open=%d", st); return; }
	for (;;) {
		sqfs_dir_node_t *ent = NULL;
		st = sqfs_dir_reader_read(r->dr, &state, &ent);
		if (st != 0) break;
		h = fnv(h, &ent->type, sizeof(ent->type));
		h = fnv(h, &ent->size, sizeof(ent->size));
		h = fnv(h, ent->name, (size_t)ent->size + 1);
		h = fnv(h, &state.ent_ref, sizeof(state.ent_ref));
		sqfs_free(ent);
		if (++n > 200000) { st = -999; break; }
	}
	printf("open=0 n=%lu end=%d h=%016llx", n, st, h);
}

static void q_path(rset_t *r, const char *path)
{
	sqfs_u64 ref = 0;
	int st = sqfs_dir_reader_resolve_path(r->dr, path, NULL, &ref);
	if (st) printf("st=%d", st); else printf("st=0 ref=%llu", (unsigned long long)ref);
}

static void q_read(rset_t *r, sqfs_u64 ref, sqfs_u64 off, sqfs_u64 size)
{
	sqfs_inode_generic_t *ino = NULL;
	unsigned char *buf;
	sqfs_s32 ret;
	int st = sqfs_dir_reader_get_inode(r->dr, ref, &ino);
	if (st) { printf("inode=%d", st); return; }
	if (!is_file(ino)) { printf("notfile"); sqfs_free(ino); return; }
	buf = malloc(size ? size : 1);
	if (!buf) abort();
	ret = sqfs_data_reader_read(r->data, ino, off, buf, (sqfs_u32)size);
	if (ret < 0) printf("ret=%d", ret);
	else printf("ret=%d h=%016llx", ret, fnv(FNV0, buf, (size_t)ret));
	free(buf);
	sqfs_free(ino);
}

/* whole file through one of the three APIs */
static void cat_read(rset_t *r, const sqfs_inode_generic_t *ino)
{
	unsigned char buf[1000];
	unsigned long long h = FNV0, len = 0;
	sqfs_u64 off = 0;
	int st = 0;
	for (;;) {
		sqfs_s32 ret = sqfs_data_reader_read(r->data, ino, off, buf, sizeof(buf));
		if (ret < 0) { st = ret; break; }
		if (ret == 0) break;
		h = fnv(h, buf, (size_t)ret); len += ret; off += ret;
	}
	printf("read=%d:%llu:%016llx", st, len, h);
}

static void cat_blocks(rset_t *r, const sqfs_inode_generic_t *ino)
{
	unsigned long long h = FNV0, len = 0;
	size_t i, nblk = sqfs_inode_get_file_block_count(ino);
	int st = 0;
	for (i = 0; i < nblk && st == 0; ++i) {
		sqfs_u8 *out = NULL; size_t sz = 0;
		st = sqfs_data_reader_get_block(r->data, ino, i, &sz, &out);
		if (st == 0) { h = fnv(h, out, sz); len += sz; }
		free(out);
	}
	if (st == 0) {
		sqfs_u8 *out = NULL; size_t sz = 0;
		st = sqfs_data_reader_get_fragment(r->data, ino, &sz, &out);
		if (st == 0) { h = fnv(h, out, sz); len += sz; }
		free(out);
	}
	printf("blocks=%d:%llu:%016llx", st, len, h);
}

static void cat_stream(rset_t *r, const sqfs_inode_generic_t *ino)
{
	sqfs_istream_t *in = NULL;
	unsigned long long h = FNV0, len = 0;
	int st = sqfs_data_reader_create_stream(r->data, ino, "f", &in);
	while (st == 0) {
		const sqfs_u8 *p = NULL; size_t sz = 0;
		int ret = in->get_buffered_data(in, &p, &sz, 4096);
		if (ret > 0) break;
		if (ret < 0) { st = ret; break; }
		h = fnv(h, p, sz); len += sz;
		in->advance_buffer(in, sz);
		if (len > (128u << 20)) { st = -999; break; }
	}
	if (in) sqfs_drop(in);
	printf("stream=%d:%llu:%016llx", st, len, h);
}

static void q_cat(rset_t *r, sqfs_u64 ref, const char *order)
{
	sqfs_inode_generic_t *ino = NULL;
	sqfs_u64 filesz = 0;
	const char *c;
	int st = sqfs_dir_reader_get_inode(r->dr, ref, &ino);
	if (st) { printf("inode=%d", st); return; }
	if (!is_file(ino)) { printf("notfile"); sqfs_free(ino); return; }
	sqfs_inode_get_file_size(ino, &filesz);
	if (filesz > (64u << 20)) { printf("toobig"); sqfs_free(ino); return; }
	for (c = order; *c; ++c) {
		if (c != order) putchar(' ');
		if (*c == 'r') cat_read(r, ino); else if (*c == 'b') cat_blocks(r, ino); else cat_stream(r, ino);
	}
	sqfs_free(ino);
}

static void q_block(rset_t *r, sqfs_u64 ref, sqfs_u64 idx)
{
	sqfs_inode_generic_t *ino = NULL;
	sqfs_u8 *out = NULL; size_t sz = 0;
	int st = sqfs_dir_reader_get_inode(r->dr, ref, &ino);
	if (st) { printf("inode=%d", st); return; }
	if (!is_file(ino)) { printf("notfile"); sqfs_free(ino); return; }
	st = sqfs_data_reader_get_block(r->data, ino, (size_t)idx, &sz, &out);
	if (st) printf("st=%d", st); else printf("st=0 n=%zu h=%016llx", sz, fnv(FNV0, out, sz));
	free(out);
	sqfs_free(ino);
}

static void q_xattr(rset_t *r, sqfs_u64 idx)
{
	sqfs_xattr_t *list = NULL, *it;
	unsigned long long h = FNV0; unsigned long n = 0;
	int st;
	if (!r->xr) { printf("noxattr"); return; }
	st = sqfs_xattr_reader_read_all(r->xr, (sqfs_u32)idx, &list);
	if (st) { printf("st=%d", st); return; }
	for (it = list; it; it = it->next) {
		h = fnv(h, it->key, strlen(it->key) + 1);
		h = fnv(h, it->value, it->value_len);
		++n;
	}
	sqfs_xattr_list_free(list);
	printf("st=0 n=%lu h=%016llx", n, h);
}

static void q_xattrkv(rset_t *r, sqfs_u64 idx)
{
	sqfs_xattr_id_t desc;
	unsigned long long h = FNV0;
	sqfs_u32 i;
	int st;
	if (!r->xr) { printf("noxattr"); return; }
	st = sqfs_xattr_reader_get_desc(r->xr, (sqfs_u32)idx, &desc);
	if (st) { printf("desc=%d", st); return; }
	st = sqfs_xattr_reader_seek_kv(r->xr, &desc);
	if (st) { printf("seek=%d", st); return; }
	for (i = 0; i < desc.count && i < 4096; ++i) {
		sqfs_xattr_entry_t *key = NULL; sqfs_xattr_value_t *val = NULL;
		st = sqfs_xattr_reader_read_key(r->xr, &key);
		if (st) { printf("key[%u]=%d", i, st); return; }
		st = sqfs_xattr_reader_read_value(r->xr, key, &val);
		if (st) { sqfs_free(key); printf("val[%u]=%d", i, st); return; }
		h = fnv(h, key->key, strlen((const char *)key->key) + 1);
		h = fnv(h, val->value, val->size);
		sqfs_free(key); sqfs_free(val);
	}
	printf("st=0 n=%u h=%016llx", i, h);
}

static void q_id(rset_t *r, sqfs_u64 idx)
{
	sqfs_u32 id = 0;
	int st;
	if (r->st_idt && !g_keep) { printf("noids"); return; }
	st = sqfs_id_table_index_to_id(r->idt, (sqfs_u16)idx, &id);
	if (st) printf("st=%d", st); else printf("st=0 id=%u", id);
}

static void walk(rset_t *r)
{
	static sqfs_u64 queue[4096];
	size_t qh = 0, qt = 0, count = 0;
	int first = 1;
	queue[qt++] = g_super.root_inode_ref;
	printf("refs=");
	while (qh < qt && count < 3000) {
		sqfs_u64 ref = queue[qh++];
		sqfs_inode_generic_t *ino = NULL;
		sqfs_dir_reader_state_t state;
		sqfs_u32 xidx = 0xFFFFFFFF;
		if (sqfs_dir_reader_get_inode(r->dr, ref, &ino)) continue;
		sqfs_inode_get_xattr_index(ino, &xidx);
		printf("%s%llu:%u:%u", first ? "" : ";", (unsigned long long)ref, ino->base.type, xidx);
		first = 0; ++count;
		if (ino->base.type == SQFS_INODE_DIR || ino->base.type == SQFS_INODE_EXT_DIR) {
			if (sqfs_dir_reader_open_dir(r->dr, ino, &state, 0) == 0) {
				unsigned long n = 0;
				for (;;) {
					sqfs_dir_node_t *ent = NULL;
					if (sqfs_dir_reader_read(r->dr, &state, &ent) != 0) break;
					sqfs_free(ent);
					if (qt < 4096) queue[qt++] = state.ent_ref;
					if (++n > 5000) break;
				}
			}
		}
		sqfs_free(ino);
	}
	if (first) putchar('-');
}

static int pu64i(const char *s, sqfs_u64 *out)
{
	char *end;
	if (!s || !*s) return -1;
	*out = strtoull(s, &end, 10);
	return *end ? -1 : 0;
}

static void query(rset_t *r, char **w, int nw)
{
	sqfs_u64 a = 0, b = 0, c = 0;
	if (!r->cmp) { printf("nocodec=%d", r->st_cmp); return; }
	if (!strcmp(w[1], "inode") && nw == 3 && !pu64i(w[2], &a)) q_inode(r, a);
	else if (!strcmp(w[1], "ls") && nw == 3 && !pu64i(w[2], &a)) q_ls(r, a);
	else if (!strcmp(w[1], "path") && nw == 3) {
		unsigned char *p; long n = hex_decode_tok(w[2], &p, 1);
		if (n < 0 || memchr(p, 0, (size_t)n)) { printf("bad-op"); if (n >= 0) free(p); return; }
		q_path(r, (const char *)p); free(p);
	}
	else if (!strcmp(w[1], "read") && nw == 5 && !pu64i(w[2], &a) && !pu64i(w[3], &b) && !pu64i(w[4], &c) && c <= (16u << 20)) q_read(r, a, b, c);
	else if (!strcmp(w[1], "cat") && nw == 3 && !pu64i(w[2], &a)) q_cat(r, a, "rbs");
	else if (!strcmp(w[1], "cat") && nw == 4 && !pu64i(w[2], &a) && strlen(w[3]) <= 6 && strspn(w[3], "rbs") == strlen(w[3])) q_cat(r, a, w[3]);
	else if (!strcmp(w[1], "frag") && nw == 3 && !pu64i(w[2], &a)) q_cat(r, a, "b");
	else if (!strcmp(w[1], "stream") && nw == 3 && !pu64i(w[2], &a)) q_cat(r, a, "s");
	else if (!strcmp(w[1], "block") && nw == 4 && !pu64i(w[2], &a) && !pu64i(w[3], &b)) q_block(r, a, b);
	else if (!strcmp(w[1], "xattr") && nw == 3 && !pu64i(w[2], &a)) q_xattr(r, a);
	else if (!strcmp(w[1], "xattrkv") && nw == 3 && !pu64i(w[2], &a)) q_xattrkv(r, a);
	else if (!strcmp(w[1], "id") && nw == 3 && !pu64i(w[2], &a)) q_id(r, a);
	else printf("bad-op");
}

#define NLS 8
static sqfs_dir_reader_state_t g_ls[NLS];
static int g_ls_open[NLS];

static int ls_next(rset_t *r, sqfs_dir_reader_state_t *state)
{
	sqfs_dir_node_t *ent = NULL;
	int st = sqfs_dir_reader_read(r->dr, state, &ent);
	if (st > 0) printf("eof");
	else if (st < 0) printf("st=%d", st);
	else {
		unsigned long long h = fnv(FNV0, &ent->type, sizeof(ent->type));
		h = fnv(h, &ent->size, sizeof(ent->size));
		h = fnv(h, ent->name, (size_t)ent->size + 1);
		printf("ent=%016llx ref=%llu", h, (unsigned long long)state->ent_ref);
		sqfs_free(ent);
	}
	return st;
}

void h_c10_img_reset(void)
{
	int i;
	if (g_hist_ok) rset_destroy(&g_hist);
	g_hist_ok = 0; g_super_ok = 0; g_keep = 0;
	for (i = 0; i < NLS; ++i) g_ls_open[i] = 0;
}

void op_image(char **w, int nw)
{
	if (nw < 2) { puts("bad-op"); return; }
	if (!strcmp(w[1], "open") && nw == 2) {
		int st;
		if (g_hist_ok) { rset_destroy(&g_hist); g_hist_ok = 0; }
		st = sqfs_super_read(&g_super, h_c10_memfile());
		g_super_ok = (st == 0);
		g_super0 = g_super; g_keep = 0;
		if (st) { printf("st=super:%d\n", st); return; }
		rset_create(&g_hist);
		g_hist_ok = 1;
		printf("st=ok cmp=%d xattr=%d ids=%d frag=%d bs=%u comp=%u\n", g_hist.st_cmp, g_hist.st_xr, g_hist.st_idt, g_hist.st_frag,
		       g_super.block_size, g_super.compression_id);
		return;
	}
	if (!g_super_ok || !g_hist_ok) { puts("not-open"); return; }
	if (!strcmp(w[1], "walk") && nw == 2) {
		rset_t f;
		rset_create(&f);
		if (f.cmp) walk(&f); else printf("refs=-");
		rset_destroy(&f);
		putchar('\n');
		return;
	}
	if (!g_hist.cmp) { printf("nocodec=%d\n", g_hist.st_cmp); return; }
	if (!strcmp(w[1], "lsopen") && nw == 4) {
		sqfs_u64 slot, ref;
		sqfs_inode_generic_t *ino = NULL;
		int st;
		if (pu64i(w[2], &slot) || pu64i(w[3], &ref) || slot >= NLS) { puts("bad-op"); return; }
		g_ls_open[slot] = 0;
		st = sqfs_dir_reader_get_inode(g_hist.dr, ref, &ino);
		if (st == 0) {
			st = sqfs_dir_reader_open_dir(g_hist.dr, ino, &g_ls[slot], 0);
			sqfs_free(ino);
			if (st == 0) g_ls_open[slot] = 1;
		}
		printf("st=%d\n", st);
		return;
	}
	if (!strcmp(w[1], "lsnext") && nw == 3) {
		sqfs_u64 slot;
		sqfs_dir_reader_state_t copy;
		rset_t f;
		int st;
		if (pu64i(w[2], &slot) || slot >= NLS) { puts("bad-op"); return; }
		if (!g_ls_open[slot]) { puts("closed"); return; }
		copy = g_ls[slot];
		st = ls_next(&g_hist, &g_ls[slot]);
		if (st != 0) g_ls_open[slot] = 0;
		printf(" || ");
		rset_create(&f);
		if (f.cmp) ls_next(&f, &copy); else printf("nocodec");
		rset_destroy(&f);
		putchar('\n');
		return;
	}
	if (!strcmp(w[1], "resuper") && nw >= 3) {
		sqfs_super_t s = g_super;
		sqfs_file_t *file = h_c10_memfile();
		int i, sx, si, sf;
		for (i = 2; i < nw; ++i) {
			char *eq = strchr(w[i], '=');
			sqfs_u64 v;
			if (!eq || pu64i(eq + 1, &v)) { puts("bad-op"); return; }
			*eq = '\0';
			if (!strcmp(w[i], "reset")) s = g_super0;
			else if (!strcmp(w[i], "noxattr")) s.flags = v ? (s.flags | SQFS_FLAG_NO_XATTRS) : (s.flags & ~SQFS_FLAG_NO_XATTRS);
			else if (!strcmp(w[i], "nofrag")) s.flags = v ? (s.flags | SQFS_FLAG_NO_FRAGMENTS) : (s.flags & ~SQFS_FLAG_NO_FRAGMENTS);
			else if (!strcmp(w[i], "xattr_start")) s.xattr_id_table_start = v;
			else if (!strcmp(w[i], "id_start")) s.id_table_start = v;
			else if (!strcmp(w[i], "id_count")) s.id_count = (sqfs_u16)v;
			else if (!strcmp(w[i], "frag_start")) s.fragment_table_start = v;
			else if (!strcmp(w[i], "frag_count")) s.fragment_entry_count = (sqfs_u32)v;
			else if (!strcmp(w[i], "bytes_used")) s.bytes_used = v;
			else { puts("bad-op"); return; }
		}
		g_super = s;
		g_keep = 1;
		if (!g_hist.xr) { g_hist.xr = sqfs_xattr_reader_create(0); if (!g_hist.xr) abort(); }
		sx = sqfs_xattr_reader_load(g_hist.xr, &g_super, file, g_hist.cmp);
		si = sqfs_id_table_read(g_hist.idt, file, &g_super, g_hist.cmp);
		sf = sqfs_data_reader_load_fragment_table(g_hist.data, &g_super);
		g_hist.st_xr = sx; g_hist.st_idt = si; g_hist.st_frag = sf;
		printf("st=ok xattr=%d ids=%d frag=%d\n", sx, si, sf);
		return;
	}
	if (!strcmp(w[1], "reload") && nw == 2) {
		printf("st=%d\n", sqfs_data_reader_load_fragment_table(g_hist.data, &g_super));
		return;
	}
	{
		rset_t f;
		query(&g_hist, w, nw);
		printf(" || ");
		rset_create(&f);
		query(&f, w, nw);
		rset_destroy(&f);
		putchar('\n');
	}
}
