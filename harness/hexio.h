/* shared helpers for the line-protocol harnesses: hex tokens ("-" = empty) */
#ifndef VERIF_HEXIO_H
#define VERIF_HEXIO_H
#include <stdio.h>
#include <stdlib.h>
#include <string.h>
#include <stdint.h>

static int hexval(int c)
{
	if (c >= '0' && c <= '9') return c - '0';
	if (c >= 'a' && c <= 'f') return c - 'a' + 10;
	if (c >= 'A' && c <= 'F') return c - 'A' + 10;
	return -1;
}

/* decode token into a fresh exact-size malloc'd buffer of len+pad bytes (pad bytes zeroed); returns length or -1 */
static long hex_decode_tok(const char *tok, unsigned char **out, size_t pad)
{
	size_t n = strlen(tok), i;
	unsigned char *b;
	if (strcmp(tok, "-") == 0) n = 0;
	if (n % 2) return -1;
	b = (unsigned char *)malloc(n / 2 + pad + (n / 2 + pad == 0));
	if (!b) abort();
	for (i = 0; i < n / 2; ++i) {
		int a = hexval(tok[2 * i]), c = hexval(tok[2 * i + 1]);
		if (a < 0 || c < 0) { free(b); return -1; }
		b[i] = (unsigned char)(a * 16 + c);
	}
	memset(b + n / 2, 0, pad);
	*out = b;
	return (long)(n / 2);
}

static void hex_print(FILE *f, const unsigned char *p, size_t n)
{
	static const char d[] = "0123456789abcdef";
	size_t i;
	if (n == 0) { fputc('-', f); return; }
	for (i = 0; i < n; ++i) { fputc(d[p[i] >> 4], f); fputc(d[p[i] & 15], f); }
}
#endif
