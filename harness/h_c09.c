/*
 * C09 harness: the real lib/util/src/threadpool.c (included below, so that the snapshots read the
 * real struct fields) on the controlled scheduler of shim_sched.h, driven by the same script lines
 * as `sqfsmodel c09`:
 *
 *   run <repaired> <nworkers> <rcspec> <choice>*
 *
 * (<repaired> is for the model only and ignored here.)  Prints, like the model driver, the snapshot
 * after every step joined by " | ", then " || sub=… cb=… ret=… ev=…" with the history the harness observed
 * itself (data of successful submits, callback invocations worker:data, data handed back by dequeue, the
 * event log P<i>:<ptr> set_worker_ptr call / E<w>:<ptr>:<d> callback entry with the context pointer the
 * callback really received / L<w> callback exit / O<d> submit failed in calloc), and " err=…" if one of its own
 * assertions failed:
 *   mutex-held      a mutex was owned at a (coarse) scheduling point
 *   tid             worker callback on an unexpected thread / context pointer outside the harness's array
 * Choices: s<d> q g x (API calls), p<i>:<ptr> set_worker_ptr(i, ptr) (ptr 0 = NULL, c+1 = &ctxs[c]),
 * o<d> submit(d) with calloc failing (if it is called), m/M, w<i>/W<i>.
 *
 *   fine <repaired> <nworkers> <rcspec> <seed> <pspur%> <op>*
 *   finev …   the same, additionally printing the fine schedule taken (`ftrace=`) and a snapshot after EVERY fine step
 *             (`fsnaps=`) in the vocabulary of `sqfsmodel c09 frun` (Model/C09PoolFine.lean): thread phases `L:<pc>` (holds
 *             the mutex, acquired from <pc>), `U:…` (has unlocked; main: the pending tail with the value it carries,
 *             worker: the item it left with), the lazily updated fields as they are in the real struct, `mf=` mutex free
 *
 * Fine mode of the scheduler (shim_sched.h: additional scheduling points right after every lock acquisition and
 * right after every unlock): a seeded random schedule of the API script <op>* at that granularity.  Every
 * coarse step of the model is then three segments, (a) lock granted, (b) critical section up to the unlock or
 * the cond wait, (c) lock-free tail up to the next blocking point, and segments of different threads interleave
 * (only lock-free code can run while another thread is inside (a)..(b)).  The harness prints the *derived coarse
 * schedule* — each model step placed where its segment (b) ran (lock-free steps: where they ran) —, the API
 * return values, a snapshot whenever every thread is at a coarse blocking point (`@k:` = after k derived
 * choices) and the final snapshot after all pending tails were completed.  If the lock-free tails touch only
 * thread-private state (the assumption behind the model's granularity), the model run on the derived schedule
 * must reproduce all of it; a write that was moved out of the critical section shows up as a difference or as a
 * dead-lock (`dl=1`).
 * Compile with -include shim_sched.h (vlib ctx.cc flags) and link sched.c.
 */
#include "config.h"
#include <stdlib.h>
#include <stdio.h>

/* calloc of threadpool.c (the work item allocation in submit) goes through a hook so that it can fail */
static int g_fail_calloc;
static void *h_calloc(size_t n, size_t sz)
{
	if (g_fail_calloc) {
		g_fail_calloc = 0;
		return NULL;
	}
	return calloc(n, sz);
}
#define calloc h_calloc
#include "lib/util/src/threadpool.c"
#undef calloc

#define MAXW 16
#define MAXITEM 4096
#define MAXLOG 4096

enum { OP_NONE, OP_SUBMIT, OP_DEQUEUE, OP_STATUS, OP_DESTROY, OP_SETPTR, OP_SUBMIT_OOM };

typedef struct { int busy; int idx; } wctx_t;

static thread_pool_impl_t *g_pool;
static int g_n;
static int rc_tbl[MAXITEM];
static unsigned int vals[MAXITEM];          /* work items: data = index into vals */
static wctx_t ctxs[MAXW];
static int cur_data[MAXW];                  /* item the worker's callback is running on */
static int cur_ctx[MAXW];                   /* context pointer it received (0 NULL, c+1 = &ctxs[c], -1 foreign) */
static struct { int valid, d, rc; } fin[MAXW];
static char last_ret[64];
static int pend_op, pend_arg, pend_arg2, cur_op, cur_arg, cur_arg2;
static struct { char k; int a, b, c; } evlog[MAXLOG];
static int n_ev;
static char retlog[1 << 16];
static size_t retlog_len;

static void ev(char k, int a, int b, int c)
{
	if (n_ev < MAXLOG) {
		evlog[n_ev].k = k; evlog[n_ev].a = a; evlog[n_ev].b = b; evlog[n_ev].c = c;
		++n_ev;
	}
}

static void api_returned(void)
{
	size_t n = strlen(last_ret);
	if (retlog_len + n + 2 < sizeof(retlog)) {
		if (retlog_len)
			retlog[retlog_len++] = ',';
		memcpy(retlog + retlog_len, last_ret, n + 1);
		retlog_len += n;
	}
}

static int ptr_code(const void *p)
{
	const wctx_t *c = p;
	if (c == NULL)
		return 0;
	if (c < ctxs || c >= ctxs + MAXW)
		return -1;
	return (int)(c - ctxs) + 1;
}
static int main_setup_done, destroyed;
static int errflags;                        /* 1 mutex-held, 2 ctx, 4 tid */
static int log_sub[MAXLOG], n_sub, log_cbw[MAXLOG], log_cbd[MAXLOG], n_cb, log_ret[MAXLOG], n_ret;

static int cb(void *user, void *item)
{
	int d = (int)((unsigned int *)item - vals);
	int w = vs_self() - 1;
	int pc = ptr_code(user);
	if (w < 0 || w >= g_n || pc < 0)
		errflags |= 4;
	if (w >= 0 && w < MAXW) {
		cur_data[w] = d;
		cur_ctx[w] = pc;
	}
	ev('E', w, pc, d);
	vs_yield("cb");                          /* blocking point: inside the callback (`working it`) */
	if (n_cb < MAXLOG) {
		log_cbw[n_cb] = w;
		log_cbd[n_cb++] = d;
	}
	ev('L', w, 0, 0);
	vals[d] = 42;
	if (w >= 0 && w < MAXW) {
		fin[w].valid = 1;
		fin[w].d = d;
		fin[w].rc = rc_tbl[d];
	}
	return rc_tbl[d];
}

static void *main_thread(void *arg)
{
	thread_pool_t *p;
	int i;
	(void)arg;
	p = thread_pool_create((size_t)g_n, cb);
	if (p == NULL) {
		fprintf(stderr, "thread_pool_create failed\n");
		abort();
	}
	g_pool = (thread_pool_impl_t *)p;
	if ((int)p->get_worker_count(p) != g_n)
		errflags |= 4;
	for (i = 0; i < g_n; ++i) {
		ev('P', i, i + 1, 0);
		p->set_worker_ptr(p, (size_t)i, &ctxs[i]);
	}
	main_setup_done = 1;
	for (;;) {
		vs_yield("idle");                /* between two API calls */
		cur_op = pend_op;
		cur_arg = pend_arg;
		cur_arg2 = pend_arg2;
		pend_op = OP_NONE;
		if (cur_op == OP_SUBMIT || cur_op == OP_SUBMIT_OOM) {
			int rc;
			g_fail_calloc = cur_op == OP_SUBMIT_OOM;
			rc = p->submit(p, &vals[cur_arg]);
			if (cur_op == OP_SUBMIT_OOM && !g_fail_calloc)
				ev('O', cur_arg, 0, 0);          /* the hook was consumed: calloc was called and failed */
			g_fail_calloc = 0;
			if (rc == 0 && n_sub < MAXLOG)
				log_sub[n_sub++] = cur_arg;
			snprintf(last_ret, sizeof(last_ret), "sub:%d", rc);
		} else if (cur_op == OP_SETPTR) {
			if (cur_arg < g_n)
				ev('P', cur_arg, cur_arg2, 0);
			p->set_worker_ptr(p, (size_t)cur_arg, cur_arg2 == 0 ? NULL : (void *)&ctxs[cur_arg2 - 1]);
			snprintf(last_ret, sizeof(last_ret), "set");
		} else if (cur_op == OP_DEQUEUE) {
			unsigned int *r = p->dequeue(p);
			if (r == NULL) {
				snprintf(last_ret, sizeof(last_ret), "deq:null");
			} else {
				if (n_ret < MAXLOG)
					log_ret[n_ret++] = (int)(r - vals);
				snprintf(last_ret, sizeof(last_ret), "deq:%d", (int)(r - vals));
			}
		} else if (cur_op == OP_STATUS) {
			snprintf(last_ret, sizeof(last_ret), "st:%d", p->get_status(p));
		} else if (cur_op == OP_DESTROY) {
			p->destroy(p);
			destroyed = 1;
			g_pool = NULL;
			snprintf(last_ret, sizeof(last_ret), "destroyed");
			api_returned();
			break;
		}
		if (cur_op != OP_NONE)
			api_returned();
		cur_op = OP_NONE;
	}
	return NULL;
}

static void put_items(FILE *f, work_item_t *l)
{
	int first = 1, guard = 0;
	if (l == NULL) {
		fputc('-', f);
		return;
	}
	for (; l != NULL && guard < 100000; l = l->next, ++guard) {
		fprintf(f, "%s%zu:%d", first ? "" : ",", l->ticket_number, (int)((unsigned int *)l->data - vals));
		first = 0;
	}
}

static void put_workers(FILE *f)
{
	int i;
	for (i = 0; i < g_n; ++i) {
		int t = i + 1;
		if (i)
			fputc(',', f);
		switch (vs_kind(t)) {
		case VS_START: fputs("created", f); break;
		case VS_LOCK:
			if (fin[i].valid)
				fprintf(f, "fin:%d:%d", fin[i].d, fin[i].rc);
			else
				fputs("start", f);
			break;
		case VS_COND:
			fprintf(f, "waitQ%d", vs_signalled(t));
			if (g_pool && vs_obj(t) != &g_pool->queue_cond)
				fputs("?cond", f);
			break;
		case VS_YIELD: fprintf(f, "work:%d@%d", cur_data[i], cur_ctx[i]); break;
		case VS_EXITED: fputs("exit", f); break;
		default: fputs("?", f);
		}
	}
	if (g_n == 0)
		fputc('-', f);
}

static void put_main(FILE *f)
{
	switch (vs_kind(0)) {
	case VS_YIELD: fputs("idle", f); break;
	case VS_LOCK:
		if (cur_op == OP_SUBMIT || cur_op == OP_SUBMIT_OOM) fprintf(f, "submitLock:%d", cur_arg);
		else if (cur_op == OP_SETPTR) fprintf(f, "setPtrLock:%d:%d", cur_arg, cur_arg2);
		else if (cur_op == OP_DEQUEUE) fputs("deqLock", f);
		else if (cur_op == OP_STATUS) fputs("statusLock", f);
		else if (cur_op == OP_DESTROY) fputs("destroyLock", f);
		else fputs("?lock", f);
		break;
	case VS_COND:
		fprintf(f, "deqWait%d", vs_signalled(0));
		if (g_pool && vs_obj(0) != &g_pool->done_cond)
			fputs("?cond", f);
		break;
	case VS_JOIN: fprintf(f, "join:%d", vs_join_target(0) - 1); break;
	case VS_EXITED: fputs("finished", f); break;
	default: fputs("?", f);
	}
}

static int main_in_call(void)
{
	int k = vs_kind(0);
	return k == VS_LOCK || k == VS_COND || k == VS_JOIN;
}

static void snapshot(FILE *f, int with_ret)
{
	int i, first = 1, any = 0;
	if (vs_mutexes_held_coarse() != 0)
		errflags |= 1;
	if (destroyed) {
		fputs("destroyed m=", f);
		put_main(f);
		fputs(" w=", f);
		put_workers(f);
		fprintf(f, " r=%s", with_ret && last_ret[0] ? last_ret : "-");
		return;
	}
	fputs("Q=", f); put_items(f, g_pool->queue);
	fputs(" D=", f); put_items(f, g_pool->done);
	fputs(" S=", f); put_items(f, g_pool->safe_done);
	{
		work_item_t *r;
		int n = 0;
		for (r = g_pool->recycle; r != NULL && n < 100000; r = r->next)
			++n;
		fprintf(f, " nt=%zu nd=%zu ic=%zu st=%d rec=%d U=", g_pool->next_ticket, g_pool->next_dequeue_ticket,
			g_pool->item_count, g_pool->status, n);
		for (i = 0; i < g_n; ++i)
			fprintf(f, "%s%d", i ? "," : "", ptr_code(g_pool->workers[i].user));
		fputs(" m=", f);
	}
	put_main(f);
	fputs(" w=", f);
	put_workers(f);
	fprintf(f, " r=%s en=", with_ret && last_ret[0] ? last_ret : "-");
	if (main_in_call() && vs_enabled(0)) {
		fputs("m", f);
		first = 0;
		any = 1;
	}
	for (i = 0; i < g_n; ++i)
		if (vs_enabled(i + 1)) {
			fprintf(f, "%sw%d", first ? "" : ",", i);
			first = 0;
			any = 1;
		}
	if (first)
		fputc('-', f);
	fprintf(f, " dl=%d", main_in_call() && !any);
	/* consistency of the tail pointers the snapshots do not print */
	{
		work_item_t *l = g_pool->queue, *last = NULL;
		for (; l; l = l->next) last = l;
		if (last != g_pool->queue_last) fputs(" ?queue_last", f);
		for (l = g_pool->safe_done, last = NULL; l; l = l->next) last = l;
		if (last != g_pool->safe_done_last) fputs(" ?safe_done_last", f);
	}
}

static void put_list(FILE *f, const char *name, const int *a, const int *b, int n)
{
	int i;
	fprintf(f, " %s=", name);
	if (n == 0)
		fputc('-', f);
	for (i = 0; i < n; ++i) {
		if (b)
			fprintf(f, "%s%d:%d", i ? "," : "", a[i], b[i]);
		else
			fprintf(f, "%s%d", i ? "," : "", a[i]);
	}
}

static int parse_rcspec(char *s)
{
	memset(rc_tbl, 0, sizeof(rc_tbl));
	if (strcmp(s, "-") == 0)
		return 0;
	while (*s) {
		char *e;
		long d = strtol(s, &e, 10), r;
		if (e == s || *e != ':' || d < 0 || d >= MAXITEM)
			return -1;
		s = e + 1;
		r = strtol(s, &e, 10);
		if (e == s)
			return -1;
		rc_tbl[d] = (int)r;
		s = e;
		if (*s == ',')
			++s;
		else if (*s)
			return -1;
	}
	return 0;
}

static int is_num(const char *s)
{
	if (!*s)
		return 0;
	for (; *s; ++s)
		if (*s < '0' || *s > '9')
			return 0;
	return 1;
}

static void put_history(FILE *f)
{
	int i;
	fputs(" ||", f);
	put_list(f, "sub", log_sub, NULL, n_sub);
	put_list(f, "cb", log_cbw, log_cbd, n_cb);
	put_list(f, "ret", log_ret, NULL, n_ret);
	fputs(" ev=", f);
	if (n_ev == 0)
		fputc('-', f);
	for (i = 0; i < n_ev; ++i) {
		if (i)
			fputc(',', f);
		switch (evlog[i].k) {
		case 'P': fprintf(f, "P%d:%d", evlog[i].a, evlog[i].b); break;
		case 'E': fprintf(f, "E%d:%d:%d", evlog[i].a, evlog[i].b, evlog[i].c); break;
		case 'L': fprintf(f, "L%d", evlog[i].a); break;
		default: fprintf(f, "O%d", evlog[i].a);
		}
	}
	if (errflags)
		fprintf(f, " err=%s%s", errflags & 1 ? "mutex-held," : "", errflags & 4 ? "tid," : "");
}

/* common set-up of `run` and `fine`: create the pool, set the worker pointers, bring every worker to its first
   pthread_mutex_lock (nothing shared is touched on the way); not part of the script */
static int setup(const char *ns, char *rcs)
{
	int i, guard;
	if (!ns || !rcs || !is_num(ns) || atoi(ns) < 1 || atoi(ns) > MAXW || parse_rcspec(rcs) != 0)
		return -1;
	g_n = atoi(ns);
	g_pool = NULL;
	memset(ctxs, 0, sizeof(ctxs));
	memset(fin, 0, sizeof(fin));
	memset(vals, 0, sizeof(vals));
	memset(cur_ctx, 0, sizeof(cur_ctx));
	pend_op = cur_op = OP_NONE;
	last_ret[0] = 0;
	retlog[0] = 0;
	retlog_len = 0;
	main_setup_done = destroyed = errflags = 0;
	n_sub = n_cb = n_ret = n_ev = 0;
	g_fail_calloc = 0;
	vs_reset();
	vs_spawn(main_thread, NULL);
	for (guard = 0; !(main_setup_done && vs_kind(0) == VS_YIELD) && guard < 1000; ++guard)
		if (vs_step(0, 0) != 0)
			break;
	for (i = 0; i < g_n; ++i)
		if (vs_kind(i + 1) == VS_START)
			vs_step(i + 1, 0);
	return 0;
}

/* parse an API-call token into pend_op/pend_arg/pend_arg2; 0 if it is not one */
static int parse_call(const char *tok)
{
	if (tok[0] == 's' && is_num(tok + 1) && atoi(tok + 1) < MAXITEM) {
		pend_op = OP_SUBMIT; pend_arg = atoi(tok + 1);
		return 1;
	}
	if (tok[0] == 'o' && is_num(tok + 1) && atoi(tok + 1) < MAXITEM) {
		pend_op = OP_SUBMIT_OOM; pend_arg = atoi(tok + 1);
		return 1;
	}
	if (tok[0] == 'p') {
		char *e;
		long i = strtol(tok + 1, &e, 10), q;
		if (e == tok + 1 || *e != ':' || i < 0 || i > 1000000)
			return 0;
		if (!is_num(e + 1))
			return 0;
		q = atol(e + 1);
		if (q > MAXW)
			return 0;
		pend_op = OP_SETPTR; pend_arg = (int)i; pend_arg2 = (int)q;
		return 1;
	}
	if (strcmp(tok, "q") == 0 || strcmp(tok, "g") == 0 || strcmp(tok, "x") == 0) {
		pend_op = tok[0] == 'q' ? OP_DEQUEUE : tok[0] == 'g' ? OP_STATUS : OP_DESTROY;
		return 1;
	}
	return 0;
}

static void run_line(char *line)
{
	char *save = NULL, *tok;
	char *cmd = strtok_r(line, " \n", &save);
	char *rep = strtok_r(NULL, " \n", &save), *ns = strtok_r(NULL, " \n", &save), *rcs = strtok_r(NULL, " \n", &save);
	if (!cmd || strcmp(cmd, "run") != 0 || !rep || setup(ns, rcs) != 0) {
		puts("bad-op");
		return;
	}
	snapshot(stdout, 0);
	while ((tok = strtok_r(NULL, " \n", &save)) != NULL) {
		int ok = 0, tid = -1, spur = 0;
		last_ret[0] = 0;
		if (parse_call(tok)) {
			tid = 0;
			ok = vs_kind(0) == VS_YIELD;
		} else if (strcmp(tok, "m") == 0) {
			tid = 0;
			ok = main_in_call() && vs_enabled(0);
		} else if (strcmp(tok, "M") == 0) {
			tid = 0; spur = 1;
			ok = vs_kind(0) == VS_COND && !vs_signalled(0);
		} else if (tok[0] == 'w' && is_num(tok + 1)) {
			tid = atoi(tok + 1) + 1;
			ok = tid <= g_n && vs_enabled(tid);
		} else if (tok[0] == 'W' && is_num(tok + 1)) {
			tid = atoi(tok + 1) + 1; spur = 1;
			ok = tid <= g_n && vs_kind(tid) == VS_COND && !vs_signalled(tid);
		} else {
			fputs(" | bad-choice", stdout);
			continue;
		}
		if (!ok) {
			pend_op = OP_NONE;
			fputs(" | ne", stdout);
			continue;
		}
		if (tid > 0 && vs_kind(tid) == VS_LOCK)
			fin[tid - 1].valid = 0;          /* the worker passes the lock: no longer `finishing` */
		if (vs_step(tid, spur) != 0) {
			fputs(" | ne?", stdout);
			continue;
		}
		fputs(" | ", stdout);
		snapshot(stdout, 1);
	}
	put_history(stdout);
	putchar('\n');
	vs_kill_all();
}

/* ---------------------------------------------------------------- fine mode */
#define MAXOPS 512
static char derived[1 << 16];
static size_t derived_len;
static int n_derived;

static void emit(const char *fmt, int arg)
{
	char buf[64];
	size_t n;
	snprintf(buf, sizeof(buf), fmt, arg);
	n = strlen(buf);
	if (derived_len + n + 2 < sizeof(derived)) {
		if (derived_len)
			derived[derived_len++] = ' ';
		memcpy(derived + derived_len, buf, n + 1);
		derived_len += n;
	}
	++n_derived;
}

static int is_idle(int tid)
{
	const char *t = vs_tag(tid);
	return tid == 0 && vs_kind(0) == VS_YIELD && t != NULL && strcmp(t, "idle") == 0;
}

static int all_coarse(void)
{
	int t;
	for (t = 0; t <= g_n; ++t)
		if (vs_fine_point(t))
			return 0;
	return 1;
}

static int spur_pending[MAXW + 1];
static char lk_from[MAXW + 1][40], tail_desc[MAXW + 1][40];
static FILE *ftrace_f, *fsnaps_f;            /* non-NULL in verbose mode */

static void fsnap_thread(FILE *f, int tid)
{
	int fp = vs_fine_point(tid), i = tid - 1;
	if (fp == 1) {
		fprintf(f, "L:%s", lk_from[tid]);
		return;
	}
	if (fp == 2) {
		fputs(tail_desc[tid], f);
		return;
	}
	if (tid == 0) {
		put_main(f);
		return;
	}
	switch (vs_kind(tid)) {
	case VS_START: fputs("created", f); break;
	case VS_LOCK:
		if (fin[i].valid)
			fprintf(f, "fin:%d:%d", fin[i].d, fin[i].rc);
		else
			fputs("start", f);
		break;
	case VS_COND: fprintf(f, "waitQ%d", vs_signalled(tid)); break;
	case VS_YIELD: fprintf(f, "work:%d", cur_data[i]); break;
	case VS_EXITED: fputs("exit", f); break;
	default: fputs("?", f);
	}
}

/* snapshot in the vocabulary of the fine model */
static void fsnapshot(FILE *f)
{
	int i;
	if (destroyed) {
		fputs("destroyed m=", f);
		fsnap_thread(f, 0);
		fputs(" w=", f);
	} else {
		work_item_t *r;
		int n = 0;
		fputs("Q=", f); put_items(f, g_pool->queue);
		fputs(" D=", f); put_items(f, g_pool->done);
		fputs(" S=", f); put_items(f, g_pool->safe_done);
		for (r = g_pool->recycle; r != NULL && n < 100000; r = r->next)
			++n;
		fprintf(f, " nt=%zu nd=%zu ic=%zu st=%d rec=%d m=", g_pool->next_ticket, g_pool->next_dequeue_ticket,
			g_pool->item_count, g_pool->status, n);
		fsnap_thread(f, 0);
		fputs(" w=", f);
	}
	for (i = 0; i < g_n; ++i) {
		if (i)
			fputc(',', f);
		fsnap_thread(f, i + 1);
	}
	fprintf(f, " r=%s", last_ret[0] ? last_ret : "-");
	if (!destroyed)
		fprintf(f, " mf=%d", vs_mutexes_held() == 0);
}

/* one fine step of thread tid (must be enabled); emits the derived coarse choice if this segment carries one */
static int fine_step(int tid, int spur, const char *optok)
{
	int kind = vs_kind(tid), fp = vs_fine_point(tid);
	int peek = -1;
	size_t nd_before = 0;
	last_ret[0] = 0;
	if (fp == 0 && (kind == VS_LOCK || kind == VS_COND)) {
		/* (a): remember from which blocking point the mutex is acquired */
		if (kind == VS_COND)
			snprintf(lk_from[tid], sizeof(lk_from[tid]), tid == 0 ? "deqWait%d" : "waitQ%d", vs_signalled(tid));
		else if (tid > 0 && fin[tid - 1].valid)
			snprintf(lk_from[tid], sizeof(lk_from[tid]), "fin:%d:%d", fin[tid - 1].d, fin[tid - 1].rc);
		else if (tid > 0)
			snprintf(lk_from[tid], sizeof(lk_from[tid]), "start");
		else if (cur_op == OP_SUBMIT || cur_op == OP_SUBMIT_OOM)
			snprintf(lk_from[0], sizeof(lk_from[0]), "submitLock:%d", cur_arg);
		else if (cur_op == OP_SETPTR)
			snprintf(lk_from[0], sizeof(lk_from[0]), "setPtrLock:%d:%d", cur_arg, cur_arg2);
		else
			snprintf(lk_from[0], sizeof(lk_from[0]), "%s", cur_op == OP_DEQUEUE ? "deqLock" : cur_op == OP_STATUS ? "statusLock" : "destroyLock");
	}
	if (fp == 1 && g_pool != NULL) {
		/* (b): what the critical section is about to take */
		if (tid == 0) {
			nd_before = g_pool->next_dequeue_ticket;
			if (g_pool->done != NULL && g_pool->done->ticket_number == nd_before)
				peek = (int)((unsigned int *)g_pool->done->data - vals);
		} else {
			fin[tid - 1].valid = 0;              /* the worker stores its item: no longer `finishing` */
			if (g_pool->queue != NULL)
				peek = (int)((unsigned int *)g_pool->queue->data - vals);
		}
	}
	if (kind == VS_COND)
		spur_pending[tid] = spur;
	if (vs_step(tid, spur) != 0)
		return -1;
	if (ftrace_f != NULL) {
		if (optok != NULL)
			fprintf(ftrace_f, " %s", optok);
		else if (tid == 0)
			fputs(spur ? " M" : " m", ftrace_f);
		else
			fprintf(ftrace_f, spur ? " W%d" : " w%d", tid - 1);
	}
	if (fp == 1 && vs_fine_point(tid) == 2 && g_pool != NULL) {
		/* the thread has unlocked: describe its pending tail */
		if (tid > 0) {
			if (g_pool->status != 0)
				snprintf(tail_desc[tid], sizeof(tail_desc[tid]), "U:null");
			else
				snprintf(tail_desc[tid], sizeof(tail_desc[tid]), "U:%d", peek);
		} else if (cur_op == OP_SUBMIT || cur_op == OP_SUBMIT_OOM) {
			snprintf(tail_desc[0], sizeof(tail_desc[0]), "U:submit:%d", g_pool->status);
		} else if (cur_op == OP_DEQUEUE) {
			if (g_pool->next_dequeue_ticket != nd_before)
				snprintf(tail_desc[0], sizeof(tail_desc[0]), "U:deq:%d", peek);
			else
				snprintf(tail_desc[0], sizeof(tail_desc[0]), "U:deq:null");
		} else if (cur_op == OP_STATUS) {
			snprintf(tail_desc[0], sizeof(tail_desc[0]), "U:status:%d", g_pool->status);
		} else if (cur_op == OP_DESTROY) {
			snprintf(tail_desc[0], sizeof(tail_desc[0]), "U:destroy");
		} else {
			snprintf(tail_desc[0], sizeof(tail_desc[0]), "U:setptr");
		}
	}
	if (fp == 1) {                                  /* (b): the critical section ran */
		if (tid == 0)
			emit(spur_pending[0] ? "M" : "m", 0);
		else
			emit(spur_pending[tid] ? "W%d" : "w%d", tid - 1);
		spur_pending[tid] = 0;
	} else if (fp == 2 || kind == VS_LOCK || kind == VS_COND) {
		/* (c) tail, (a) lock granted / woken: no model step of their own */
	} else if (optok != NULL) {
		emit(optok, 0);                             /* idle -> call (to its first blocking point or to the end) */
	} else if (tid == 0) {
		emit("m", 0);                               /* join */
	} else {
		emit("w%d", tid - 1);                       /* callback body */
	}
	if (vs_mutexes_held_coarse() != 0)
		errflags |= 1;
	if (fsnaps_f != NULL) {
		fputs(" | ", fsnaps_f);
		fsnapshot(fsnaps_f);
	}
	return 0;
}

static void run_fine(char *line)
{
	char *save = NULL, *tok, *ops[MAXOPS];
	char *cmd = strtok_r(line, " \n", &save);
	char *rep = strtok_r(NULL, " \n", &save), *ns = strtok_r(NULL, " \n", &save), *rcs = strtok_r(NULL, " \n", &save),
	     *seed = strtok_r(NULL, " \n", &save), *ps = strtok_r(NULL, " \n", &save);
	unsigned long long x;
	int nops = 0, next = 0, dl = 0, steps = 0, last = -1, pspur, t;
	int verbose = cmd != NULL && strcmp(cmd, "finev") == 0;
	char *ftrace_buf = NULL, *fsnaps_buf = NULL;
	size_t ftrace_len = 0, fsnaps_len = 0;
	if (!rep || !seed || !ps || !is_num(seed) || !is_num(ps) || setup(ns, rcs) != 0) {
		puts("bad-op");
		return;
	}
	while ((tok = strtok_r(NULL, " \n", &save)) != NULL && nops < MAXOPS)
		ops[nops++] = tok;
	pspur = atoi(ps);
	x = strtoull(seed, NULL, 10) * 2862933555777941757ULL + 3037000493ULL;
	derived[0] = 0;
	derived_len = 0;
	n_derived = 0;
	memset(spur_pending, 0, sizeof(spur_pending));
	vs_set_fine(1);
	ftrace_f = fsnaps_f = NULL;
	if (verbose) {
		ftrace_f = open_memstream(&ftrace_buf, &ftrace_len);
		fsnaps_f = open_memstream(&fsnaps_buf, &fsnaps_len);
		if (ftrace_f == NULL || fsnaps_f == NULL)
			abort();
		fsnapshot(fsnaps_f);
	}
	fputs("fine", stdout);
	for (steps = 0; steps < 100000; ++steps) {
		int cand[MAXW + 1], nc = 0, sp[MAXW + 1], nsp = 0, pick;
		for (t = 0; t <= g_n; ++t) {
			if (is_idle(t)) {
				if (next < nops)
					cand[nc++] = t;
			} else if (vs_enabled(t)) {
				cand[nc++] = t;
			}
			if (vs_kind(t) == VS_COND && !vs_signalled(t))
				sp[nsp++] = t;
		}
		if (nc == 0) {
			dl = main_in_call() || vs_fine_point(0) != 0;
			break;
		}
		x = x * 6364136223846793005ULL + 1442695040888963407ULL;
		if (nsp > 0 && (int)((x >> 33) % 100) < pspur) {
			x = x * 6364136223846793005ULL + 1442695040888963407ULL;
			pick = sp[(x >> 33) % (unsigned)nsp];
			if (fine_step(pick, 1, NULL) == 0) {
				last = pick;
				continue;
			}
		}
		x = x * 6364136223846793005ULL + 1442695040888963407ULL;
		pick = -1;
		if ((x >> 33) % 100 < 35)                  /* keep running the same thread */
			for (t = 0; t < nc; ++t)
				if (cand[t] == last)
					pick = last;
		if (pick < 0) {
			x = x * 6364136223846793005ULL + 1442695040888963407ULL;
			pick = cand[(x >> 33) % (unsigned)nc];
		}
		if (is_idle(pick)) {
			if (!parse_call(ops[next])) {
				fputs(" bad-op", stdout);
				break;
			}
			fine_step(0, 0, ops[next]);
			++next;
		} else {
			fine_step(pick, 0, NULL);
		}
		last = pick;
		if (all_coarse() && !destroyed) {
			printf(" @%d:", n_derived);
			snapshot(stdout, 0);
		}
	}
	/* complete the pending tails (and critical sections) so that the final state is a coarse one */
	for (t = 0; t <= g_n; ++t) {
		int guard = 0;
		while (vs_fine_point(t) && guard++ < 8)
			fine_step(t, 0, NULL);
	}
	printf(" @final%d:", n_derived);
	snapshot(stdout, 0);
	printf(" # dl=%d steps=%d derived=%s rets=%s", dl, steps, derived_len ? derived : "-", retlog_len ? retlog : "-");
	put_history(stdout);
	if (verbose) {
		fclose(ftrace_f);
		fclose(fsnaps_f);
		printf(" ## ftrace=%s ## fsnaps=%s", ftrace_len ? ftrace_buf + 1 : "-", fsnaps_buf);
		free(ftrace_buf);
		free(fsnaps_buf);
		ftrace_f = fsnaps_f = NULL;
	}
	putchar('\n');
	vs_kill_all();
}

/* cfail <nworkers> <k> <seed>: the k-th pthread_create inside thread_pool_create fails (EAGAIN); the function must
   shut the already created workers down, join them and return NULL — under a seeded random schedule */
static int cf_n, cf_k, cf_null;

static void *cfail_thread(void *arg)
{
	thread_pool_t *p;
	(void)arg;
	vs_fail_next_create(cf_k);
	p = thread_pool_create((size_t)cf_n, cb);
	cf_null = p == NULL;
	if (p != NULL)
		p->destroy(p);
	return NULL;
}

/* reduced snapshot of the failure path of thread_pool_create (the pool pointer is not visible from outside): program
   counters only, in the model's vocabulary — the path is `destroy` on a pool with the j workers created so far */
static void cf_pcs(char *buf, size_t cap)
{
	size_t n = 0;
	int i, nt = vs_nthreads();
	switch (vs_kind(0)) {
	case VS_LOCK: n += (size_t)snprintf(buf + n, cap - n, "m=destroyLock"); break;
	case VS_JOIN: n += (size_t)snprintf(buf + n, cap - n, "m=join:%d", vs_join_target(0) - 1); break;
	case VS_EXITED: n += (size_t)snprintf(buf + n, cap - n, "m=finished"); break;
	default: n += (size_t)snprintf(buf + n, cap - n, "m=?");
	}
	n += (size_t)snprintf(buf + n, cap - n, " w=");
	for (i = 1; i < nt && n + 16 < cap; ++i) {
		switch (vs_kind(i)) {
		case VS_START: case VS_LOCK: n += (size_t)snprintf(buf + n, cap - n, "%sstart", i > 1 ? "," : ""); break;
		case VS_COND: n += (size_t)snprintf(buf + n, cap - n, "%swaitQ%d", i > 1 ? "," : "", vs_signalled(i)); break;
		case VS_EXITED: n += (size_t)snprintf(buf + n, cap - n, "%sexit", i > 1 ? "," : ""); break;
		default: n += (size_t)snprintf(buf + n, cap - n, "%s?", i > 1 ? "," : "");
		}
	}
	if (nt <= 1)
		snprintf(buf + n, cap - n, "-");
}

static void run_cfail(char *line)
{
	char *save = NULL;
	char *cmd = strtok_r(line, " \n", &save), *a = strtok_r(NULL, " \n", &save), *b = strtok_r(NULL, " \n", &save),
	     *c = strtok_r(NULL, " \n", &save);
	static char trace[1 << 16];
	size_t tl = 0;
	char pcs[512];
	unsigned long long x;
	int dl = 0, alive = 0, i, mtx = 0, with_spur, nspur = 0;
	(void)cmd;
	if (!a || !b || !c || !is_num(a) || !is_num(b) || !is_num(c) || atoi(a) < 1 || atoi(a) > MAXW) {
		puts("bad-op");
		return;
	}
	cf_n = atoi(a);
	cf_k = atoi(b);
	cf_null = -1;
	g_n = cf_n;
	x = strtoull(c, NULL, 10) * 2862933555777941757ULL + 3037000493ULL;
	with_spur = strtoull(c, NULL, 10) % 4 == 1;
	derived[0] = 0;
	derived_len = 0;
	n_derived = 0;
	trace[0] = 0;
	vs_reset();
	vs_spawn(cfail_thread, NULL);
	for (;;) {
		int en[64], n = 0, nt = vs_nthreads(), live = 0, pick, kind, spur = 0;
		for (i = 0; i < nt && i < 64; ++i) {
			if (vs_kind(i) != VS_EXITED)
				live = 1;
			if (vs_enabled(i))
				en[n++] = i;
		}
		if (vs_mutexes_held() != 0)
			mtx = 1;
		if (n == 0) {
			dl = live;
			break;
		}
		pick = -1;
		x = x * 6364136223846793005ULL + 1442695040888963407ULL;
		if (with_spur && (x >> 33) % 100 < 15) {
			int cand[64], m = 0;
			for (i = 0; i < nt && i < 64; ++i)
				if (vs_kind(i) == VS_COND && !vs_signalled(i))
					cand[m++] = i;
			x = x * 6364136223846793005ULL + 1442695040888963407ULL;
			if (m > 0) {
				pick = cand[(x >> 33) % (unsigned)m];
				spur = 1;
			}
		}
		if (pick < 0) {
			x = x * 6364136223846793005ULL + 1442695040888963407ULL;
			pick = en[(x >> 33) % (unsigned)n];
		}
		kind = vs_kind(pick);
		if (vs_step(pick, spur) != 0)
			continue;
		nspur += spur;
		/* derived schedule of the model run `run 1 <j> - …` (j = workers created): the main thread arriving at the
		   lock of the failure path is the call `x`; a worker's way from creation to its first lock is no step */
		if (pick == 0)
			emit(kind == VS_START ? "x" : "m", 0);
		else if (kind == VS_START)
			continue;
		else
			emit(spur ? "W%d" : "w%d", pick - 1);
		cf_pcs(pcs, sizeof(pcs));
		if (tl + strlen(pcs) + 4 < sizeof(trace))
			tl += (size_t)snprintf(trace + tl, sizeof(trace) - tl, "%s%s", tl ? " | " : "", pcs);
	}
	for (i = 0; i < vs_nthreads(); ++i)
		alive += vs_kind(i) != VS_EXITED;
	printf("null=%d dl=%d alive=%d threads=%d spur=%d mtx=%d || derived=%s pcs=%s\n", cf_null, dl, alive, vs_nthreads(), nspur, mtx,
	       derived_len ? derived : "-", trace);
	vs_kill_all();
}

int main(void)
{
	static char line[1 << 16];
	while (fgets(line, sizeof(line), stdin)) {
		if (strncmp(line, "cfail ", 6) == 0)
			run_cfail(line);
		else if (strncmp(line, "fine ", 5) == 0 || strncmp(line, "finev ", 6) == 0)
			run_fine(line);
		else
			run_line(line);
	}
	return 0;
}
