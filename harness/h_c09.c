/*
 * C09 harness: the real lib/util/src/threadpool.c (included below, so that the snapshots read the
 * real struct fields) on the controlled scheduler of shim_sched.h, driven by the same script lines
 * as `sqfsmodel c09`:
 *
 *   run <repaired> <nworkers> <rcspec> <choice>*
 *
 * (<repaired> is for the model only and ignored here.)  Prints, like the model driver, the snapshot
 * after every step joined by " | ", then " || sub=… cb=… ret=…" with the history the harness observed
 * itself (data of successful submits, callback invocations worker:data, data handed back by dequeue),
 * and " err=…" if one of its own assertions failed:
 *   mutex-held      a mutex was owned at a scheduling point
 *   ctx             a callback ran with a context other than its worker's own, or on a busy context
 *   tid             worker callback on an unexpected thread
 * Compile with -include shim_sched.h (vlib ctx.cc flags) and link sched.c.
 */
#include "config.h"
#include "lib/util/src/threadpool.c"

#include <stdio.h>

#define MAXW 16
#define MAXITEM 4096
#define MAXLOG 4096

enum { OP_NONE, OP_SUBMIT, OP_DEQUEUE, OP_STATUS, OP_DESTROY };

typedef struct { int busy; int idx; } wctx_t;

static thread_pool_impl_t *g_pool;
static int g_n;
static int rc_tbl[MAXITEM];
static unsigned int vals[MAXITEM];          /* work items: data = index into vals */
static wctx_t ctxs[MAXW];
static int cur_data[MAXW];                  /* item the worker's callback is running on */
static struct { int valid, d, rc; } fin[MAXW];
static int pend_op, pend_arg, cur_op, cur_arg;
static char last_ret[64];
static int main_setup_done, destroyed;
static int errflags;                        /* 1 mutex-held, 2 ctx, 4 tid */
static int log_sub[MAXLOG], n_sub, log_cbw[MAXLOG], log_cbd[MAXLOG], n_cb, log_ret[MAXLOG], n_ret;

static int cb(void *user, void *item)
{
	wctx_t *c = user;
	int d = (int)((unsigned int *)item - vals);
	int w = vs_self() - 1;
	if (w < 0 || w >= g_n)
		errflags |= 4;
	else if (c != &ctxs[w])
		errflags |= 2;
	if (c == NULL || c->busy)
		errflags |= 2;
	else
		c->busy = 1;
	if (w >= 0 && w < MAXW)
		cur_data[w] = d;
	vs_yield("cb");                          /* blocking point: callback entry (`working it`) */
	if (n_cb < MAXLOG) {
		log_cbw[n_cb] = w;
		log_cbd[n_cb++] = d;
	}
	vals[d] = 42;
	if (c)
		c->busy = 0;
	if (w >= 0 && w < MAXW) {
		fin[w].valid = 1;
		fin[w].d = d;
		fin[w].rc = rc_tbl[d];
	}
	return rc_tbl[d];
}

static void *main_thread(void *arg)
{
	thread_pool_t *p;
	int i;
	(void)arg;
	p = thread_pool_create((size_t)g_n, cb);
	if (p == NULL) {
		fprintf(stderr, "thread_pool_create failed\n");
		abort();
	}
	g_pool = (thread_pool_impl_t *)p;
	if ((int)p->get_worker_count(p) != g_n)
		errflags |= 4;
	for (i = 0; i < g_n; ++i)
		p->set_worker_ptr(p, (size_t)i, &ctxs[i]);
	main_setup_done = 1;
	for (;;) {
		vs_yield("idle");                /* between two API calls */
		cur_op = pend_op;
		cur_arg = pend_arg;
		pend_op = OP_NONE;
		if (cur_op == OP_SUBMIT) {
			int rc = p->submit(p, &vals[cur_arg]);
			if (rc == 0 && n_sub < MAXLOG)
				log_sub[n_sub++] = cur_arg;
			snprintf(last_ret, sizeof(last_ret), "sub:%d", rc);
		} else if (cur_op == OP_DEQUEUE) {
			unsigned int *r = p->dequeue(p);
			if (r == NULL) {
				snprintf(last_ret, sizeof(last_ret), "deq:null");
			} else {
				if (n_ret < MAXLOG)
					log_ret[n_ret++] = (int)(r - vals);
				snprintf(last_ret, sizeof(last_ret), "deq:%d", (int)(r - vals));
			}
		} else if (cur_op == OP_STATUS) {
			snprintf(last_ret, sizeof(last_ret), "st:%d", p->get_status(p));
		} else if (cur_op == OP_DESTROY) {
			p->destroy(p);
			destroyed = 1;
			g_pool = NULL;
			snprintf(last_ret, sizeof(last_ret), "destroyed");
			break;
		}
		cur_op = OP_NONE;
	}
	return NULL;
}

static void put_items(FILE *f, work_item_t *l)
{
	int first = 1, guard = 0;
	if (l == NULL) {
		fputc('-', f);
		return;
	}
	for (; l != NULL && guard < 100000; l = l->next, ++guard) {
		fprintf(f, "%s%zu:%d", first ? "" : ",", l->ticket_number, (int)((unsigned int *)l->data - vals));
		first = 0;
	}
}

static void put_workers(FILE *f)
{
	int i;
	for (i = 0; i < g_n; ++i) {
		int t = i + 1;
		if (i)
			fputc(',', f);
		switch (vs_kind(t)) {
		case VS_START: fputs("created", f); break;
		case VS_LOCK:
			if (fin[i].valid)
				fprintf(f, "fin:%d:%d", fin[i].d, fin[i].rc);
			else
				fputs("start", f);
			break;
		case VS_COND:
			fprintf(f, "waitQ%d", vs_signalled(t));
			if (g_pool && vs_obj(t) != &g_pool->queue_cond)
				fputs("?cond", f);
			break;
		case VS_YIELD: fprintf(f, "work:%d", cur_data[i]); break;
		case VS_EXITED: fputs("exit", f); break;
		default: fputs("?", f);
		}
	}
	if (g_n == 0)
		fputc('-', f);
}

static void put_main(FILE *f)
{
	switch (vs_kind(0)) {
	case VS_YIELD: fputs("idle", f); break;
	case VS_LOCK:
		if (cur_op == OP_SUBMIT) fprintf(f, "submitLock:%d", cur_arg);
		else if (cur_op == OP_DEQUEUE) fputs("deqLock", f);
		else if (cur_op == OP_STATUS) fputs("statusLock", f);
		else if (cur_op == OP_DESTROY) fputs("destroyLock", f);
		else fputs("?lock", f);
		break;
	case VS_COND:
		fprintf(f, "deqWait%d", vs_signalled(0));
		if (g_pool && vs_obj(0) != &g_pool->done_cond)
			fputs("?cond", f);
		break;
	case VS_JOIN: fprintf(f, "join:%d", vs_join_target(0) - 1); break;
	case VS_EXITED: fputs("finished", f); break;
	default: fputs("?", f);
	}
}

static int main_in_call(void)
{
	int k = vs_kind(0);
	return k == VS_LOCK || k == VS_COND || k == VS_JOIN;
}

static void snapshot(FILE *f, int with_ret)
{
	int i, first = 1, any = 0;
	if (vs_mutexes_held() != 0)
		errflags |= 1;
	if (destroyed) {
		fputs("destroyed m=", f);
		put_main(f);
		fputs(" w=", f);
		put_workers(f);
		fprintf(f, " r=%s", with_ret && last_ret[0] ? last_ret : "-");
		return;
	}
	fputs("Q=", f); put_items(f, g_pool->queue);
	fputs(" D=", f); put_items(f, g_pool->done);
	fputs(" S=", f); put_items(f, g_pool->safe_done);
	{
		work_item_t *r;
		int n = 0;
		for (r = g_pool->recycle; r != NULL && n < 100000; r = r->next)
			++n;
		fprintf(f, " nt=%zu nd=%zu ic=%zu st=%d rec=%d m=", g_pool->next_ticket, g_pool->next_dequeue_ticket,
			g_pool->item_count, g_pool->status, n);
	}
	put_main(f);
	fputs(" w=", f);
	put_workers(f);
	fprintf(f, " r=%s en=", with_ret && last_ret[0] ? last_ret : "-");
	if (main_in_call() && vs_enabled(0)) {
		fputs("m", f);
		first = 0;
		any = 1;
	}
	for (i = 0; i < g_n; ++i)
		if (vs_enabled(i + 1)) {
			fprintf(f, "%sw%d", first ? "" : ",", i);
			first = 0;
			any = 1;
		}
	if (first)
		fputc('-', f);
	fprintf(f, " dl=%d", main_in_call() && !any);
	/* consistency of the tail pointers the snapshots do not print */
	{
		work_item_t *l = g_pool->queue, *last = NULL;
		for (; l; l = l->next) last = l;
		if (last != g_pool->queue_last) fputs(" ?queue_last", f);
		for (l = g_pool->safe_done, last = NULL; l; l = l->next) last = l;
		if (last != g_pool->safe_done_last) fputs(" ?safe_done_last", f);
	}
}

static void put_list(FILE *f, const char *name, const int *a, const int *b, int n)
{
	int i;
	fprintf(f, " %s=", name);
	if (n == 0)
		fputc('-', f);
	for (i = 0; i < n; ++i) {
		if (b)
			fprintf(f, "%s%d:%d", i ? "," : "", a[i], b[i]);
		else
			fprintf(f, "%s%d", i ? "," : "", a[i]);
	}
}

static int parse_rcspec(char *s)
{
	memset(rc_tbl, 0, sizeof(rc_tbl));
	if (strcmp(s, "-") == 0)
		return 0;
	while (*s) {
		char *e;
		long d = strtol(s, &e, 10), r;
		if (e == s || *e != ':' || d < 0 || d >= MAXITEM)
			return -1;
		s = e + 1;
		r = strtol(s, &e, 10);
		if (e == s)
			return -1;
		rc_tbl[d] = (int)r;
		s = e;
		if (*s == ',')
			++s;
		else if (*s)
			return -1;
	}
	return 0;
}

static int is_num(const char *s)
{
	if (!*s)
		return 0;
	for (; *s; ++s)
		if (*s < '0' || *s > '9')
			return 0;
	return 1;
}

static void run_line(char *line)
{
	char *save = NULL, *tok;
	char *cmd = strtok_r(line, " \n", &save);
	char *rep = strtok_r(NULL, " \n", &save), *ns = strtok_r(NULL, " \n", &save), *rcs = strtok_r(NULL, " \n", &save);
	int i, guard;
	if (!cmd || strcmp(cmd, "run") != 0 || !rep || !ns || !rcs || !is_num(ns) || atoi(ns) < 1 || atoi(ns) > MAXW ||
	    parse_rcspec(rcs) != 0) {
		puts("bad-op");
		return;
	}
	g_n = atoi(ns);
	g_pool = NULL;
	memset(ctxs, 0, sizeof(ctxs));
	memset(fin, 0, sizeof(fin));
	memset(vals, 0, sizeof(vals));
	pend_op = cur_op = OP_NONE;
	last_ret[0] = 0;
	main_setup_done = destroyed = errflags = 0;
	n_sub = n_cb = n_ret = 0;
	vs_reset();
	vs_spawn(main_thread, NULL);
	/* set-up, not part of the script: create the pool, set the worker pointers, bring every worker
	   to its first pthread_mutex_lock (nothing shared is touched on the way) */
	for (guard = 0; !(main_setup_done && vs_kind(0) == VS_YIELD) && guard < 1000; ++guard)
		if (vs_step(0, 0) != 0)
			break;
	for (i = 0; i < g_n; ++i)
		if (vs_kind(i + 1) == VS_START)
			vs_step(i + 1, 0);
	snapshot(stdout, 0);
	while ((tok = strtok_r(NULL, " \n", &save)) != NULL) {
		int ok = 0, tid = -1, spur = 0;
		last_ret[0] = 0;
		if (tok[0] == 's' && is_num(tok + 1) && atoi(tok + 1) < MAXITEM) {
			pend_op = OP_SUBMIT; pend_arg = atoi(tok + 1); tid = 0;
			ok = vs_kind(0) == VS_YIELD;
		} else if (strcmp(tok, "q") == 0 || strcmp(tok, "g") == 0 || strcmp(tok, "x") == 0) {
			pend_op = tok[0] == 'q' ? OP_DEQUEUE : tok[0] == 'g' ? OP_STATUS : OP_DESTROY; tid = 0;
			ok = vs_kind(0) == VS_YIELD;
		} else if (strcmp(tok, "m") == 0) {
			tid = 0;
			ok = main_in_call() && vs_enabled(0);
		} else if (strcmp(tok, "M") == 0) {
			tid = 0; spur = 1;
			ok = vs_kind(0) == VS_COND && !vs_signalled(0);
		} else if (tok[0] == 'w' && is_num(tok + 1)) {
			tid = atoi(tok + 1) + 1;
			ok = tid <= g_n && vs_enabled(tid);
		} else if (tok[0] == 'W' && is_num(tok + 1)) {
			tid = atoi(tok + 1) + 1; spur = 1;
			ok = tid <= g_n && vs_kind(tid) == VS_COND && !vs_signalled(tid);
		} else {
			fputs(" | bad-choice", stdout);
			continue;
		}
		if (!ok) {
			pend_op = OP_NONE;
			fputs(" | ne", stdout);
			continue;
		}
		if (tid > 0 && vs_kind(tid) == VS_LOCK)
			fin[tid - 1].valid = 0;          /* the worker passes the lock: no longer `finishing` */
		if (vs_step(tid, spur) != 0) {
			fputs(" | ne?", stdout);
			continue;
		}
		fputs(" | ", stdout);
		snapshot(stdout, 1);
	}
	fputs(" ||", stdout);
	put_list(stdout, "sub", log_sub, NULL, n_sub);
	put_list(stdout, "cb", log_cbw, log_cbd, n_cb);
	put_list(stdout, "ret", log_ret, NULL, n_ret);
	if (errflags)
		printf(" err=%s%s%s", errflags & 1 ? "mutex-held," : "", errflags & 2 ? "ctx," : "", errflags & 4 ? "tid," : "");
	putchar('\n');
	vs_kill_all();
}

/* cfail <nworkers> <k> <seed>: the k-th pthread_create inside thread_pool_create fails (EAGAIN); the function must
   shut the already created workers down, join them and return NULL — under a seeded random schedule */
static int cf_n, cf_k, cf_null;

static void *cfail_thread(void *arg)
{
	thread_pool_t *p;
	(void)arg;
	vs_fail_next_create(cf_k);
	p = thread_pool_create((size_t)cf_n, cb);
	cf_null = p == NULL;
	if (p != NULL)
		p->destroy(p);
	return NULL;
}

static void run_cfail(char *line)
{
	char *save = NULL;
	char *cmd = strtok_r(line, " \n", &save), *a = strtok_r(NULL, " \n", &save), *b = strtok_r(NULL, " \n", &save),
	     *c = strtok_r(NULL, " \n", &save);
	unsigned long long x;
	int dl = 0, alive = 0, i, mtx = 0;
	(void)cmd;
	if (!a || !b || !c || !is_num(a) || !is_num(b) || !is_num(c) || atoi(a) < 1 || atoi(a) > MAXW) {
		puts("bad-op");
		return;
	}
	cf_n = atoi(a);
	cf_k = atoi(b);
	cf_null = -1;
	g_n = cf_n;
	x = strtoull(c, NULL, 10) * 2862933555777941757ULL + 3037000493ULL;
	vs_reset();
	vs_spawn(cfail_thread, NULL);
	for (;;) {
		int en[64], n = 0, nt = vs_nthreads(), live = 0;
		for (i = 0; i < nt && i < 64; ++i) {
			if (vs_kind(i) != VS_EXITED)
				live = 1;
			if (vs_enabled(i))
				en[n++] = i;
		}
		if (vs_mutexes_held() != 0)
			mtx = 1;
		if (n == 0) {
			dl = live;
			break;
		}
		x = x * 6364136223846793005ULL + 1442695040888963407ULL;
		vs_step(en[(x >> 33) % (unsigned)n], 0);
	}
	for (i = 0; i < vs_nthreads(); ++i)
		alive += vs_kind(i) != VS_EXITED;
	printf("null=%d dl=%d alive=%d threads=%d mtx=%d\n", cf_null, dl, alive, vs_nthreads(), mtx);
	vs_kill_all();
}

int main(void)
{
	static char line[1 << 16];
	while (fgets(line, sizeof(line), stdin)) {
		if (strncmp(line, "cfail ", 6) == 0)
			run_cfail(line);
		else
			run_line(line);
	}
	return 0;
}
