/*
 * C02: proves that harness/shim_c02_locale.c is bound and answers as documented (run by tools/checks/c02.py with
 * LD_PRELOAD=shim_c02_locale.so C02_LOCALE_HOSTILE=1).  Prints one line; the expected text is in the check.
 */
#include <ctype.h>
#include <fnmatch.h>
#include <locale.h>
#include <stdio.h>
#include <stdlib.h>
#include <string.h>
#include <strings.h>
#include <time.h>

int main(void)
{
	time_t t = 0;
	struct tm tm;
	int before = strcoll("A", "b") < 0, ci_before = strcasecmp("I", "i") == 0;
	int fn_before = (fnmatch("[a-z]*", "Zeta", 0) == 0) * 2 + (fnmatch("*_[x-z]*", "f01_Y", 0) == 0);
	const char *l = setlocale(LC_ALL, "");
	int after = strcoll("A", "b") < 0, punct = strcoll("a-b", "ab") == 0 || strcoll("a-b", "ab") != strcmp("a-b", "ab");
	int fn_after = (fnmatch("[a-z]*", "Zeta", 0) == 0) * 4 + (fnmatch("*_[x-z]*", "f01_Y", 0) == 0) * 2 + (fnmatch("[[:upper:]]*", "zeta", 0) == 0);
	localtime_r(&t, &tm);
	printf("before=%d ci_before=%d locale=%s after=%d punct=%d ci_after=%d lowerI=%d alphaE9=%d dp=%s hour=%d min=%d tz=%s fn=%d%d\n", before, ci_before,
	       l ? l : "NULL", after, punct, strcasecmp("I", "i") == 0, tolower('I'), isalpha(0xE9) != 0, localeconv()->decimal_point,
	       tm.tm_hour, tm.tm_min, getenv("TZ") ? getenv("TZ") : "-", fn_before, fn_after);
	return 0;
}
