/* the toy engine of lean/Sqfs/Model/Xfrm.lean (Toy.encStep / Toy.decCore) behind the four library interfaces */
#include "c15_fakelib.h"
#include <stdlib.h>
#include <string.h>

size_t c15_absorb, c15_gran, c15_thresh;
/* added to the total_in counters once something has been consumed (`wrap big`): with 2^32 - 1 libbz2's total_in_lo32 is 0 and
   total_in_hi32 is 1 after the first byte, as in a member of more than 4 GiB */
unsigned long long c15_total_bias;

typedef struct {
	unsigned char *q; size_t qn, qcap;
	int is_dec;
	int fin;				/* encoder */
	int in_data, fresh, done, bad;		/* decoder */
	size_t total;
} eng_t;

enum { R_OK, R_END, R_STUCK, R_DATA };

static size_t min_sz(size_t a, size_t b) { return a < b ? a : b; }
static void q_push(eng_t *e, unsigned char c)
{
	if (e->qn == e->qcap) { e->qcap = e->qcap * 2 + 16; e->q = realloc(e->q, e->qcap); if (!e->q) abort(); }
	e->q[e->qn++] = c;
}
static void q_drop(eng_t *e, size_t n) { if (n) memmove(e->q, e->q + n, e->qn - n); e->qn -= n; }

static eng_t *eng_new(int is_dec)
{
	eng_t *e = calloc(1, sizeof(*e));
	if (!e) abort();
	e->is_dec = is_dec; e->fresh = 1;
	return e;
}
static void eng_reset(eng_t *e) { e->qn = 0; e->fin = 0; e->in_data = 0; e->fresh = 1; e->done = 0; e->bad = 0; e->total = 0; }
static void eng_free(eng_t *e) { if (e) { free(e->q); free(e); } }

/* one library call: Toy.encLib.call / Toy.decLib.call (the caller maps R_STUCK to its library's code) */
static int eng_call(eng_t *e, const unsigned char *in, size_t in_size, unsigned char *out, size_t room, int full,
		    size_t *consumed, size_t *produced)
{
	size_t n = 0, m, i;
	*consumed = 0; *produced = 0;
	if (!e->is_dec) {
		int fin1;
		if (room == 0) return R_STUCK;
		n = e->fin ? 0 : (e->qn <= c15_thresh ? min_sz(c15_absorb + 1, in_size) : 0);
		for (i = 0; i < n; ++i) { q_push(e, 1); q_push(e, in[i]); }
		fin1 = e->fin || (full && n == in_size);
		if (fin1 && !e->fin) q_push(e, 0);
		m = min_sz(min_sz(room, c15_gran + 1), e->qn);
		if (m) memcpy(out, e->q, m);
		q_drop(e, m);
		*consumed = n; *produced = m; e->total += n;
		if (fin1 && e->qn == 0) { e->fin = 0; return R_END; }
		e->fin = fin1;
		return (n == 0 && m == 0) ? R_STUCK : R_OK;
	} else {
		size_t qn0 = e->qn;
		int in_data1 = e->in_data, done1 = 0, bad1 = 0;
		if (e->bad) return R_DATA;
		if (e->done) done1 = 1;
		else if (e->qn <= c15_thresh) {
			size_t lim = min_sz(c15_absorb + 1, in_size);
			while (n < lim) {
				if (in_data1) { q_push(e, in[n++]); in_data1 = 0; }
				else if (in[n] == 0) { ++n; done1 = 1; break; }
				else if (in[n] == 1) { ++n; in_data1 = 1; }
				else { bad1 = 1; break; }
			}
		}
		if (bad1) { e->qn = qn0; e->bad = 1; *consumed = n; e->total += n; return R_DATA; }
		m = min_sz(min_sz(room, c15_gran + 1), e->qn);
		if (m) memcpy(out, e->q, m);
		*consumed = n; *produced = m; e->total += n;
		if (done1 && e->qn - m == 0) {
			size_t t = e->total;
			eng_reset(e); e->total = t;
			return R_END;
		}
		q_drop(e, m);
		e->in_data = in_data1; e->fresh = e->fresh && n == 0; e->done = done1;
		return (n == 0 && m == 0) ? R_STUCK : R_OK;
	}
}

/* ------------------------------------------------------------------ zlib */
static int z_call(z_stream *s, int flush)
{
	size_t c, p;
	int r = eng_call(s->state, s->next_in, s->avail_in, s->next_out, s->avail_out, flush == Z_FINISH, &c, &p);
	s->next_in += c; s->avail_in -= c; s->next_out += p; s->avail_out -= p;
	s->total_in = ((eng_t *)s->state)->total; s->total_out += p;
	return r == R_OK ? Z_OK : r == R_END ? Z_STREAM_END : r == R_STUCK ? Z_BUF_ERROR : Z_DATA_ERROR;
}
int deflateInit2(z_stream *s, int l, int m, int w, int ml, int st) { (void)l; (void)m; (void)w; (void)ml; (void)st; s->state = eng_new(0); s->total_in = 0; return Z_OK; }
int inflateInit2(z_stream *s, int w) { (void)w; s->state = eng_new(1); s->total_in = 0; return Z_OK; }
int deflate(z_stream *s, int flush) { return z_call(s, flush); }
int inflate(z_stream *s, int flush) { return z_call(s, flush); }
int deflateReset(z_stream *s) { eng_reset(s->state); s->total_in = 0; s->total_out = 0; return Z_OK; }
int inflateReset(z_stream *s) { eng_reset(s->state); s->total_in = 0; s->total_out = 0; return Z_OK; }
int deflateEnd(z_stream *s) { eng_free(s->state); s->state = NULL; return Z_OK; }
int inflateEnd(z_stream *s) { eng_free(s->state); s->state = NULL; return Z_OK; }

/* ------------------------------------------------------------------ liblzma */
lzma_ret lzma_stream_encoder(lzma_stream *s, const lzma_filter *f, lzma_check c) { (void)f; (void)c; s->internal = eng_new(0); s->total_in = 0; s->total_out = 0; return LZMA_OK; }
lzma_ret lzma_stream_decoder(lzma_stream *s, uint64_t m, uint32_t fl) { (void)m; (void)fl; s->internal = eng_new(1); s->total_in = 0; s->total_out = 0; return LZMA_OK; }
lzma_ret lzma_code(lzma_stream *s, lzma_action action)
{
	size_t c, p;
	int r = eng_call(s->internal, s->next_in, s->avail_in, s->next_out, s->avail_out, action == LZMA_FINISH, &c, &p);
	s->next_in += c; s->avail_in -= c; s->next_out += p; s->avail_out -= p;
	s->total_in = ((eng_t *)s->internal)->total; s->total_out += p;
	return r == R_OK ? LZMA_OK : r == R_END ? LZMA_STREAM_END : r == R_STUCK ? LZMA_BUF_ERROR : LZMA_DATA_ERROR;
}
void lzma_end(lzma_stream *s) { eng_free(s->internal); s->internal = NULL; }
unsigned char lzma_lzma_preset(lzma_options_lzma *opt, uint32_t preset) { (void)preset; memset(opt, 0, sizeof(*opt)); return 0; }

/* ------------------------------------------------------------------ libbz2 */
static int bz_call(bz_stream *s, int full)
{
	size_t c, p;
	eng_t *e = s->state;
	int r = eng_call(e, (unsigned char *)s->next_in, s->avail_in, (unsigned char *)s->next_out, s->avail_out, full, &c, &p);
	s->next_in += c; s->avail_in -= c; s->next_out += p; s->avail_out -= p;
	{ uint64_t t = e->total ? (uint64_t)e->total + c15_total_bias : 0; s->total_in_lo32 = (unsigned int)t; s->total_in_hi32 = (unsigned int)(t >> 32); }
	/* libbz2 has no "no progress" code in its streaming interface: BZ_OK / BZ_FINISH_OK */
	return r == R_OK ? (full ? BZ_FINISH_OK : BZ_OK) : r == R_END ? BZ_STREAM_END : r == R_STUCK ? (full ? BZ_FINISH_OK : BZ_OK) : BZ_DATA_ERROR;
}
int BZ2_bzCompressInit(bz_stream *s, int l, int v, int w) { (void)l; (void)v; (void)w; s->state = eng_new(0); s->total_in_lo32 = s->total_in_hi32 = 0; return BZ_OK; }
int BZ2_bzDecompressInit(bz_stream *s, int v, int sm) { (void)v; (void)sm; s->state = eng_new(1); s->total_in_lo32 = s->total_in_hi32 = 0; return BZ_OK; }
int BZ2_bzCompress(bz_stream *s, int action) { return bz_call(s, action == BZ_FINISH); }
int BZ2_bzDecompress(bz_stream *s) { return bz_call(s, 0); }
int BZ2_bzCompressEnd(bz_stream *s) { eng_free(s->state); s->state = NULL; return BZ_OK; }
int BZ2_bzDecompressEnd(bz_stream *s) { eng_free(s->state); s->state = NULL; return BZ_OK; }

/* ------------------------------------------------------------------ libzstd */
struct ZSTD_CStream_s { eng_t *e; };
struct ZSTD_DStream_s { eng_t *e; };
ZSTD_CStream *ZSTD_createCStream(void) { ZSTD_CStream *s = calloc(1, sizeof(*s)); s->e = eng_new(0); return s; }
ZSTD_DStream *ZSTD_createDStream(void) { ZSTD_DStream *s = calloc(1, sizeof(*s)); s->e = eng_new(1); return s; }
size_t ZSTD_freeCStream(ZSTD_CStream *s) { eng_free(s->e); free(s); return 0; }
size_t ZSTD_freeDStream(ZSTD_DStream *s) { eng_free(s->e); free(s); return 0; }
unsigned ZSTD_isError(size_t code) { return code > (size_t)-100; }
size_t ZSTD_compressStream2(ZSTD_CStream *s, ZSTD_outBuffer *out, ZSTD_inBuffer *in, ZSTD_EndDirective op)
{
	size_t c, p;
	int r = eng_call(s->e, (const unsigned char *)in->src + in->pos, in->size - in->pos,
			 (unsigned char *)out->dst + out->pos, out->size - out->pos, op == ZSTD_e_end, &c, &p);
	in->pos += c; out->pos += p;
	if (r == R_END) return 0;
	return s->e->qn + (op == ZSTD_e_end ? 1 : 0);
}
size_t ZSTD_decompressStream(ZSTD_DStream *s, ZSTD_outBuffer *out, ZSTD_inBuffer *in)
{
	size_t c, p;
	int r = eng_call(s->e, (const unsigned char *)in->src + in->pos, in->size - in->pos,
			 (unsigned char *)out->dst + out->pos, out->size - out->pos, 0, &c, &p);
	in->pos += c; out->pos += p;
	if (r == R_DATA) return (size_t)-20;
	if (r == R_END) return 0;
	return (s->e->fresh && s->e->qn == 0) ? 0 : s->e->qn + 1;
}
