/*
 * C15: reference zstd coder for the tool-level checks, straight on libzstd (no code of /repo involved).
 *   c15_zstd_ref c [level]   compress stdin into one frame without content checksum (what libzstd does by default)
 *   c15_zstd_ref cc [level]  compress stdin into one frame with content checksum (what the zstd tool does)
 *   c15_zstd_ref cs [level [windowlog]]  the same through the streaming interface without announcing the size: the frame header
 *                            then carries a window descriptor (the window the level asks for, e.g. 2^27 at level 22), as in `zstd < pipe`
 *   (all three: an optional third argument sets the window log, e.g. `cs 19 27`)
 *   c15_zstd_ref d1          the same, but the input is offered one byte at a time: libzstd then never takes its one-pass shortcut
 *                            (whole frame + enough room), whose checks are stricter than those of the streaming path in some
 *                            versions (1.5.4: a Frame_Content_Size larger than the content is only noticed by the shortcut)
 *   c15_zstd_ref d           strictly expand stdin: any number of complete frames, nothing else; exit 1 = damaged,
 *                            exit 2 = ends inside a frame
 */
#include <zstd.h>
#include <stdio.h>
#include <stdlib.h>
#include <string.h>

static unsigned char *slurp(size_t *n)
{
	size_t cap = 1 << 20, r;
	unsigned char *in = malloc(cap);
	*n = 0;
	while ((r = fread(in + *n, 1, cap - *n, stdin)) > 0) {
		*n += r;
		if (*n == cap) { cap *= 2; in = realloc(in, cap); }
	}
	return in;
}

int main(int argc, char **argv)
{
	size_t n, r;
	unsigned char *in;
	if (argc < 2) return 3;
	in = slurp(&n);
	if (argv[1][0] == 'c') {
		size_t cap = ZSTD_compressBound(n);
		unsigned char *o = malloc(cap ? cap : 1);
		ZSTD_CCtx *c = ZSTD_createCCtx();
		if (strcmp(argv[1], "cc") == 0) ZSTD_CCtx_setParameter(c, ZSTD_c_checksumFlag, 1);
		if (argc > 2 && ZSTD_isError(ZSTD_CCtx_setParameter(c, ZSTD_c_compressionLevel, atoi(argv[2])))) return 4;
		if (argc > 3 && ZSTD_isError(ZSTD_CCtx_setParameter(c, ZSTD_c_windowLog, atoi(argv[3])))) return 4;
		if (strcmp(argv[1], "cs") == 0) {
			ZSTD_inBuffer ib = { in, n, 0 };
			size_t left;
			ZSTD_CCtx_setParameter(c, ZSTD_c_checksumFlag, 1);
			/* first everything with `continue` (so that the size is not known when the header is written), then `end` */
			while (ib.pos < ib.size) {
				ZSTD_outBuffer ob = { o, cap ? cap : 1, 0 };
				left = ZSTD_compressStream2(c, &ob, &ib, ZSTD_e_continue);
				if (ZSTD_isError(left)) return 1;
				fwrite(o, 1, ob.pos, stdout);
			}
			do {
				ZSTD_outBuffer ob = { o, cap ? cap : 1, 0 };
				left = ZSTD_compressStream2(c, &ob, &ib, ZSTD_e_end);
				if (ZSTD_isError(left)) return 1;
				fwrite(o, 1, ob.pos, stdout);
			} while (left != 0);
			return 0;
		}
		r = ZSTD_compress2(c, o, cap, in, n);
		if (ZSTD_isError(r)) return 1;
		fwrite(o, 1, r, stdout);
		return 0;
	} else {
		ZSTD_DStream *d = ZSTD_createDStream();
		int bytewise = strcmp(argv[1], "d1") == 0;
		ZSTD_inBuffer ib = { in, bytewise ? (n ? 1 : 0) : n, 0 };
		static unsigned char ob[1 << 16];
		size_t last = 0;
		while (ib.pos < n || last != 0) {
			ZSTD_outBuffer o = { ob, sizeof ob, 0 };
			size_t p = ib.pos;
			if (bytewise) ib.size = ib.pos < n ? ib.pos + 1 : n;
			r = ZSTD_decompressStream(d, &o, &ib);
			if (ZSTD_isError(r)) { fprintf(stderr, "zstd: %s\n", ZSTD_getErrorName(r)); return 1; }
			fwrite(ob, 1, o.pos, stdout);
			if (ib.pos == p && o.pos == 0 && r != 0) { fprintf(stderr, "zstd: ends inside a frame\n"); return 2; }
			last = r;
		}
		return 0;
	}
}
