/*
 * shim_io.c — LD_PRELOAD interposer for read / write / pread / pwrite (+ the 64 variants).
 *
 * Built by the checks as a shared object (gcc -shared -fPIC shim_io.c -ldl) and applied to *un-sanitized* builds
 * of the tools.  Every decision is a pure function of (VERIF_IO_SEED, running call number), so a run is
 * reproducible as long as the process issues its calls in the same order.
 *
 * C12 uses:   seeded short counts and EINTR.
 * Provided for C13 / C14 (same decision point, see `decide`): fail the k-th call with an errno, kill the
 * process at the k-th call.
 *
 * Environment:
 *   VERIF_IO_SEED=<n>        PRNG seed (default 0)
 *   VERIF_IO_SHORT=<0..1000> per-mille of calls (with size > 1) whose size is cut to a random 1..size-1   (default 0)
 *   VERIF_IO_EINTR=<0..1000> per-mille of calls answered -1/EINTR before anything is transferred; at most
 *                            VERIF_IO_EINTR_BURST (default 8) in a row                                      (default 0)
 *   VERIF_IO_MAXCHUNK=<n>    every call transfers at most n bytes (0 = no limit); 1 = byte-at-a-time         (default 0)
 *   VERIF_IO_FDMIN=<n>       only descriptors >= n are perturbed (default 0; descriptor 2 is never touched)
 *   VERIF_IO_OPS=<letters>   subset of "rwRW" (r read, w write, R pread, W pwrite) to perturb (default all)
 *   VERIF_IO_FAIL_AT=<k>     the k-th (1-based) perturbable call fails with errno VERIF_IO_FAIL_ERRNO (default EIO=5)
 *   VERIF_IO_KILL_AT=<k>     the process is killed with SIGKILL when it issues its k-th perturbable call
 *   VERIF_IO_REPORT=<path>   at exit append one line: per function calls/short/eintr/failed/bytes
 */
#define _GNU_SOURCE
#include <dlfcn.h>
#include <errno.h>
#include <fcntl.h>
#include <signal.h>
#include <stdint.h>
#include <stdio.h>
#include <stdlib.h>
#include <string.h>
#include <unistd.h>
#include <sys/types.h>

enum { OP_READ, OP_WRITE, OP_PREAD, OP_PWRITE, OP_N };
static const char *const op_name[OP_N] = { "read", "write", "pread", "pwrite" };
static const char op_letter[OP_N] = { 'r', 'w', 'R', 'W' };

typedef struct { unsigned long calls, shortened, eintr, failed, bytes; } stat_t;
static stat_t st[OP_N];

static ssize_t (*real_read)(int, void *, size_t);
static ssize_t (*real_write)(int, const void *, size_t);
static ssize_t (*real_pread)(int, void *, size_t, off_t);
static ssize_t (*real_pwrite)(int, const void *, size_t, off_t);

static unsigned long long cfg_seed;
static unsigned cfg_short, cfg_eintr, cfg_burst = 8;
static size_t cfg_maxchunk;
static int cfg_fdmin, cfg_on[OP_N] = { 1, 1, 1, 1 };
static unsigned long cfg_fail_at, cfg_kill_at;
static int cfg_fail_errno = EIO;
static const char *cfg_report;
static int ready;
static unsigned long ncall;            /* perturbable calls so far */
static unsigned burst;                 /* consecutive EINTRs */

static unsigned long long mix(unsigned long long x)
{
	x += 0x9e3779b97f4a7c15ULL;
	x = (x ^ (x >> 30)) * 0xbf58476d1ce4e5b9ULL;
	x = (x ^ (x >> 27)) * 0x94d049bb133111ebULL;
	return x ^ (x >> 31);
}

static unsigned long env_ul(const char *n, unsigned long d)
{
	const char *v = getenv(n);
	return (v && *v) ? strtoul(v, NULL, 10) : d;
}

static void report(void);

__attribute__((constructor)) static void init(void)
{
	const char *ops;
	int i;
	if (ready) return;
	real_read = dlsym(RTLD_NEXT, "read");
	real_write = dlsym(RTLD_NEXT, "write");
	real_pread = dlsym(RTLD_NEXT, "pread64");
	real_pwrite = dlsym(RTLD_NEXT, "pwrite64");
	if (!real_pread) real_pread = dlsym(RTLD_NEXT, "pread");
	if (!real_pwrite) real_pwrite = dlsym(RTLD_NEXT, "pwrite");
	cfg_seed = env_ul("VERIF_IO_SEED", 0);
	cfg_short = (unsigned)env_ul("VERIF_IO_SHORT", 0);
	cfg_eintr = (unsigned)env_ul("VERIF_IO_EINTR", 0);
	cfg_burst = (unsigned)env_ul("VERIF_IO_EINTR_BURST", 8);
	cfg_maxchunk = env_ul("VERIF_IO_MAXCHUNK", 0);
	cfg_fdmin = (int)env_ul("VERIF_IO_FDMIN", 0);
	cfg_fail_at = env_ul("VERIF_IO_FAIL_AT", 0);
	cfg_fail_errno = (int)env_ul("VERIF_IO_FAIL_ERRNO", EIO);
	cfg_kill_at = env_ul("VERIF_IO_KILL_AT", 0);
	cfg_report = getenv("VERIF_IO_REPORT");
	ops = getenv("VERIF_IO_OPS");
	if (ops && *ops)
		for (i = 0; i < OP_N; ++i) cfg_on[i] = strchr(ops, op_letter[i]) != NULL;
	ready = 1;
	atexit(report);
}

/* What to do with one call.  Returns the size to pass on (>= 1 when size >= 1), or -1 with errno set when the
 * call is to fail without touching the descriptor.  This is the single decision point: C13/C14 extend here. */
static ssize_t decide(int op, int fd, size_t size)
{
	unsigned long k;
	unsigned long long r;
	init();
	if (!cfg_on[op] || fd == 2 || fd < cfg_fdmin)
		return (ssize_t)size;
	k = __atomic_add_fetch(&ncall, 1, __ATOMIC_SEQ_CST);
	__atomic_add_fetch(&st[op].calls, 1, __ATOMIC_RELAXED);
	if (cfg_kill_at && k == cfg_kill_at)
		kill(getpid(), SIGKILL);
	if (cfg_fail_at && k == cfg_fail_at) {
		__atomic_add_fetch(&st[op].failed, 1, __ATOMIC_RELAXED);
		errno = cfg_fail_errno;
		return -1;
	}
	r = mix(cfg_seed * 0x100000001b3ULL + k);
	if (cfg_eintr && (r % 1000) < cfg_eintr && burst < cfg_burst) {
		burst++;
		__atomic_add_fetch(&st[op].eintr, 1, __ATOMIC_RELAXED);
		errno = EINTR;
		return -1;
	}
	burst = 0;
	r = mix(r);
	if (size > 1 && cfg_short && (r % 1000) < cfg_short) {
		size = 1 + (size_t)(mix(r) % (size - 1));
		__atomic_add_fetch(&st[op].shortened, 1, __ATOMIC_RELAXED);
	}
	if (cfg_maxchunk && size > cfg_maxchunk) {
		size = cfg_maxchunk;
		__atomic_add_fetch(&st[op].shortened, 1, __ATOMIC_RELAXED);
	}
	return (ssize_t)size;
}

static ssize_t account(int op, ssize_t r)
{
	if (r > 0) __atomic_add_fetch(&st[op].bytes, (unsigned long)r, __ATOMIC_RELAXED);
	return r;
}

ssize_t read(int fd, void *buf, size_t n)
{
	ssize_t d = decide(OP_READ, fd, n);
	return d < 0 ? -1 : account(OP_READ, real_read(fd, buf, (size_t)d));
}

ssize_t write(int fd, const void *buf, size_t n)
{
	ssize_t d = decide(OP_WRITE, fd, n);
	return d < 0 ? -1 : account(OP_WRITE, real_write(fd, buf, (size_t)d));
}

ssize_t pread(int fd, void *buf, size_t n, off_t off)
{
	ssize_t d = decide(OP_PREAD, fd, n);
	return d < 0 ? -1 : account(OP_PREAD, real_pread(fd, buf, (size_t)d, off));
}

ssize_t pwrite(int fd, const void *buf, size_t n, off_t off)
{
	ssize_t d = decide(OP_PWRITE, fd, n);
	return d < 0 ? -1 : account(OP_PWRITE, real_pwrite(fd, buf, (size_t)d, off));
}

ssize_t pread64(int fd, void *buf, size_t n, off_t off) { return pread(fd, buf, n, off); }
ssize_t pwrite64(int fd, const void *buf, size_t n, off_t off) { return pwrite(fd, buf, n, off); }

static void report(void)
{
	char line[1024];
	int fd, i, len = 0;
	if (!cfg_report || !*cfg_report) return;
	len += snprintf(line + len, sizeof(line) - (size_t)len, "pid=%d", (int)getpid());
	for (i = 0; i < OP_N; ++i)
		len += snprintf(line + len, sizeof(line) - (size_t)len, " %s:calls=%lu,short=%lu,eintr=%lu,failed=%lu,bytes=%lu",
				op_name[i], st[i].calls, st[i].shortened, st[i].eintr, st[i].failed, st[i].bytes);
	line[len++] = '\n';
	fd = open(cfg_report, O_WRONLY | O_CREAT | O_APPEND, 0644);
	if (fd < 0) return;
	(void)real_write(fd, line, (size_t)len);
	close(fd);
}
