/*
 * C10 harness, part 2: the real data reader (lib/sqfs/src/data_reader.c) over the in-memory file and toy codec
 * of h_c10.c.  Inodes are given on the script line (so that damaged inodes are scriptable).
 *
 *   dr <k> new <block_size> <frag_meta_start> <frag_loc> <frag_count> <bytes_used> <entries>   -> st=<load status>
 *   dr <k> read <filesz> <blkstart> <fragidx> <fragoff> <w1,w2,..|-> <offset> <size>          -> <hist> || <fresh>
 *        answer = ret=<n> data=<hex>   |  ret=<negative status>
 */
#include "config.h"
#include "sqfs/predef.h"
#include "sqfs/io.h"
#include "sqfs/compressor.h"
#include "sqfs/data_reader.h"
#include "sqfs/inode.h"
#include "sqfs/super.h"
#include "sqfs/error.h"
#include "hexio.h"
#include <stdio.h>
#include <stdlib.h>
#include <string.h>

sqfs_file_t *h_c10_memfile(void);
sqfs_compressor_t *h_c10_toy(void);

#define NDR 8
static sqfs_data_reader_t *g_dr[NDR];
static sqfs_super_t g_dr_super[NDR];
static sqfs_u32 g_dr_bs[NDR];

static int pu64(const char *s, sqfs_u64 *out)
{
	char *end;
	if (!s || !*s) return -1;
	*out = strtoull(s, &end, 10);
	return *end ? -1 : 0;
}

static sqfs_data_reader_t *mk_reader(int k, int *st)
{
	sqfs_data_reader_t *d = sqfs_data_reader_create(h_c10_memfile(), g_dr_bs[k], h_c10_toy(), 0);
	if (!d) abort();
	*st = sqfs_data_reader_load_fragment_table(d, &g_dr_super[k]);
	return d;
}

static sqfs_inode_generic_t *mk_inode(char **w)
{
	sqfs_u64 filesz, blkstart, fragidx, fragoff;
	size_t n = 0, i;
	const char *p;
	sqfs_inode_generic_t *ino;
	if (pu64(w[0], &filesz) || pu64(w[1], &blkstart) || pu64(w[2], &fragidx) || pu64(w[3], &fragoff)) return NULL;
	if (strcmp(w[4], "-") != 0) { n = 1; for (p = w[4]; *p; ++p) if (*p == ',') ++n; }
	ino = calloc(1, sizeof(*ino) + n * sizeof(sqfs_u32));
	if (!ino) abort();
	ino->base.type = SQFS_INODE_EXT_FILE;
	ino->base.mode = 0100644;
	ino->data.file_ext.file_size = filesz;
	ino->data.file_ext.blocks_start = blkstart;
	ino->data.file_ext.fragment_idx = (sqfs_u32)fragidx;
	ino->data.file_ext.fragment_offset = (sqfs_u32)fragoff;
	ino->data.file_ext.xattr_idx = 0xFFFFFFFF;
	ino->payload_bytes_available = ino->payload_bytes_used = (sqfs_u32)(n * sizeof(sqfs_u32));
	p = w[4];
	for (i = 0; i < n; ++i) {
		char *end;
		ino->extra[i] = (sqfs_u32)strtoull(p, &end, 10);
		p = (*end == ',') ? end + 1 : end;
	}
	return ino;
}

static void do_read(sqfs_data_reader_t *d, const sqfs_inode_generic_t *ino, sqfs_u64 off, sqfs_u64 size)
{
	unsigned char *buf = malloc(size ? size : 1);
	sqfs_s32 ret;
	if (!buf) abort();
	ret = sqfs_data_reader_read(d, ino, off, buf, (sqfs_u32)size);
	if (ret < 0) printf("ret=%d", ret);
	else { printf("ret=%d data=", ret); hex_print(stdout, buf, (size_t)ret); }
	free(buf);
}

void op_data(char **w, int nw)
{
	sqfs_u64 k;
	if (nw < 3 || pu64(w[1], &k) || k >= NDR) { puts("bad-op"); return; }
	if (strcmp(w[2], "new") == 0 && nw == 9) {
		sqfs_u64 bs, ms, loc, cnt, used;
		int st;
		if (pu64(w[3], &bs) || pu64(w[4], &ms) || pu64(w[5], &loc) || pu64(w[6], &cnt) || pu64(w[7], &used)) { puts("bad-op"); return; }
		if (g_dr[k]) sqfs_drop(g_dr[k]);
		memset(&g_dr_super[k], 0, sizeof(g_dr_super[k]));
		g_dr_bs[k] = (sqfs_u32)bs;
		g_dr_super[k].block_size = (sqfs_u32)bs;
		g_dr_super[k].bytes_used = used;
		g_dr_super[k].fragment_entry_count = (sqfs_u32)cnt;
		g_dr_super[k].fragment_table_start = cnt ? loc : 0xFFFFFFFFFFFFFFFFULL;
		g_dr_super[k].directory_table_start = ms;
		g_dr_super[k].id_table_start = used;
		g_dr_super[k].export_table_start = 0xFFFFFFFFFFFFFFFFULL;
		g_dr_super[k].xattr_id_table_start = 0xFFFFFFFFFFFFFFFFULL;
		if (!cnt) g_dr_super[k].flags |= SQFS_FLAG_NO_FRAGMENTS;
		g_dr[k] = mk_reader((int)k, &st);
		printf("st=%d\n", st);
		return;
	}
	if (!g_dr[k]) { puts("bad-op"); return; }
	if (strcmp(w[2], "read") == 0 && nw == 10) {
		sqfs_u64 off, size;
		sqfs_inode_generic_t *ino = mk_inode(w + 3);
		sqfs_data_reader_t *fresh;
		int st;
		if (!ino || pu64(w[8], &off) || pu64(w[9], &size) || size > (1u << 26)) { free(ino); puts("bad-op"); return; }
		do_read(g_dr[k], ino, off, size);
		printf(" || ");
		fresh = mk_reader((int)k, &st);
		do_read(fresh, ino, off, size);
		sqfs_drop(fresh);
		putchar('\n');
		free(ino);
		return;
	}
	puts("bad-op");
}

void h_c10_data_reset(void)
{
	for (int i = 0; i < NDR; ++i) { if (g_dr[i]) sqfs_drop(g_dr[i]); g_dr[i] = NULL; }
}
