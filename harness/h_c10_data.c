/*
 * C10 harness, part 2: the real data reader (lib/sqfs/src/data_reader.c) over the in-memory file and toy codec
 * of h_c10.c.  Inodes are given on the script line (so that damaged inodes are scriptable).
 *
 *   dr <k> new <block_size> <frag_meta_start> <frag_loc> <frag_count> <bytes_used> <entries>   -> st=<load status>
 *   dr <k> read <filesz> <blkstart> <fragidx> <fragoff> <w1,w2,..|-> <offset> <size>          -> <hist> || <fresh>
 *        answer = ret=<n> data=<hex>   |  ret=<negative status>
 *   dr <k> block <inode> <index> | frag <inode> | cat <inode> <chunk>                          -> <hist> || <fresh>
 *        answer = st=<negative status> | st=0 data=<hex>  (cat: whole file through a new stream, data so far also on error)
 *   dr <k> reload <frag_meta_start> <frag_loc> <frag_count> <bytes_used>                        -> st=<load status>
 *   st <j> open <k> <inode> -> ok | st <j> get -> eof | st=<status> | data=<hex> | st <j> adv <n> -> ok
 */
#include "config.h"
#include "sqfs/predef.h"
#include "sqfs/io.h"
#include "sqfs/compressor.h"
#include "sqfs/data_reader.h"
#include "sqfs/inode.h"
#include "sqfs/super.h"
#include "sqfs/error.h"
#include "hexio.h"
#include <stdio.h>
#include <stdlib.h>
#include <string.h>

sqfs_file_t *h_c10_memfile(void);
sqfs_compressor_t *h_c10_toy(void);

#define NDR 8
static sqfs_data_reader_t *g_dr[NDR];
static sqfs_super_t g_dr_super[NDR];
static sqfs_u32 g_dr_bs[NDR];

static int pu64(const char *s, sqfs_u64 *out)
{
	char *end;
	if (!s || !*s) return -1;
	*out = strtoull(s, &end, 10);
	return *end ? -1 : 0;
}

static sqfs_data_reader_t *mk_reader(int k, int *st)
{
	sqfs_data_reader_t *d = sqfs_data_reader_create(h_c10_memfile(), g_dr_bs[k], h_c10_toy(), 0);
	if (!d) abort();
	*st = sqfs_data_reader_load_fragment_table(d, &g_dr_super[k]);
	return d;
}

static sqfs_inode_generic_t *mk_inode(char **w)
{
	sqfs_u64 filesz, blkstart, fragidx, fragoff;
	size_t n = 0, i;
	const char *p;
	sqfs_inode_generic_t *ino;
	if (pu64(w[0], &filesz) || pu64(w[1], &blkstart) || pu64(w[2], &fragidx) || pu64(w[3], &fragoff)) return NULL;
	if (strcmp(w[4], "-") != 0) { n = 1; for (p = w[4]; *p; ++p) if (*p == ',') ++n; }
	ino = calloc(1, sizeof(*ino) + n * sizeof(sqfs_u32));
	if (!ino) abort();
	ino->base.type = SQFS_INODE_EXT_FILE;
	ino->base.mode = 0100644;
	ino->data.file_ext.file_size = filesz;
	ino->data.file_ext.blocks_start = blkstart;
	ino->data.file_ext.fragment_idx = (sqfs_u32)fragidx;
	ino->data.file_ext.fragment_offset = (sqfs_u32)fragoff;
	ino->data.file_ext.xattr_idx = 0xFFFFFFFF;
	ino->payload_bytes_available = ino->payload_bytes_used = (sqfs_u32)(n * sizeof(sqfs_u32));
	p = w[4];
	for (i = 0; i < n; ++i) {
		char *end;
		ino->extra[i] = (sqfs_u32)strtoull(p, &end, 10);
		p = (*end == ',') ? end + 1 : end;
	}
	return ino;
}

static void do_read(sqfs_data_reader_t *d, const sqfs_inode_generic_t *ino, sqfs_u64 off, sqfs_u64 size)
{
	unsigned char *buf = malloc(size ? size : 1);
	sqfs_s32 ret;
	if (!buf) abort();
	ret = sqfs_data_reader_read(d, ino, off, buf, (sqfs_u32)size);
	if (ret < 0) printf("ret=%d", ret);
	else { printf("ret=%d data=", ret); hex_print(stdout, buf, (size_t)ret); }
	free(buf);
}

static void set_super(sqfs_super_t *s, sqfs_u64 bs, sqfs_u64 ms, sqfs_u64 loc, sqfs_u64 cnt, sqfs_u64 used)
{
	memset(s, 0, sizeof(*s));
	s->block_size = (sqfs_u32)bs;
	s->bytes_used = used;
	s->fragment_entry_count = (sqfs_u32)cnt;
	s->fragment_table_start = cnt ? loc : 0xFFFFFFFFFFFFFFFFULL;
	s->directory_table_start = ms;
	s->id_table_start = used;
	s->export_table_start = 0xFFFFFFFFFFFFFFFFULL;
	s->xattr_id_table_start = 0xFFFFFFFFFFFFFFFFULL;
	if (!cnt) s->flags |= SQFS_FLAG_NO_FRAGMENTS;
}

static void show_data(int st, const sqfs_u8 *p, size_t n)
{
	if (st) { printf("st=%d", st); return; }
	printf("st=0 data="); hex_print(stdout, p, n);
}

static void do_block(sqfs_data_reader_t *d, const sqfs_inode_generic_t *ino, sqfs_u64 idx)
{
	sqfs_u8 *out = NULL; size_t sz = 0;
	int st = sqfs_data_reader_get_block(d, ino, (size_t)idx, &sz, &out);
	show_data(st, out, sz);
	free(out);
}

static void do_frag(sqfs_data_reader_t *d, const sqfs_inode_generic_t *ino)
{
	sqfs_u8 *out = NULL; size_t sz = 0;
	int st = sqfs_data_reader_get_fragment(d, ino, &sz, &out);
	show_data(st, out, sz);
	free(out);
}

static void do_cat(sqfs_data_reader_t *d, const sqfs_inode_generic_t *ino, sqfs_u64 chunk)
{
	sqfs_istream_t *in = NULL;
	unsigned char *acc = malloc(1); size_t len = 0;
	int st = sqfs_data_reader_create_stream(d, ino, "f", &in);
	if (!acc) abort();
	while (st == 0) {
		const sqfs_u8 *p = NULL; size_t sz = 0, n;
		int ret = in->get_buffered_data(in, &p, &sz, 4096);
		if (ret > 0) break;
		if (ret < 0) { st = ret; break; }
		n = (chunk == 0 || chunk > sz) ? sz : (size_t)chunk;
		acc = realloc(acc, len + n + 1);
		if (!acc) abort();
		memcpy(acc + len, p, n); len += n;
		in->advance_buffer(in, n);
		if (len > (64u << 20)) { st = -999; break; }
	}
	if (in) sqfs_drop(in);
	printf("st=%d data=", st); hex_print(stdout, acc, len);
	free(acc);
}

#define NST 16
static sqfs_istream_t *g_st[NST];

void op_stream(char **w, int nw)
{
	sqfs_u64 j, k;
	if (nw < 3 || pu64(w[1], &j) || j >= NST) { puts("bad-op"); return; }
	if (strcmp(w[2], "open") == 0 && nw == 9) {
		sqfs_inode_generic_t *ino;
		int st;
		if (pu64(w[3], &k) || k >= NDR || !g_dr[k]) { puts("bad-op"); return; }
		ino = mk_inode(w + 4);
		if (!ino) { puts("bad-op"); return; }
		if (g_st[j]) g_st[j] = sqfs_drop(g_st[j]);
		st = sqfs_data_reader_create_stream(g_dr[k], ino, "f", &g_st[j]);
		free(ino);
		if (st) printf("st=%d\n", st); else puts("ok");
		return;
	}
	if (!g_st[j]) { puts("bad-op"); return; }
	if (strcmp(w[2], "get") == 0 && nw == 3) {
		const sqfs_u8 *p = NULL; size_t sz = 0;
		int ret = g_st[j]->get_buffered_data(g_st[j], &p, &sz, 4096);
		if (ret > 0) puts("eof");
		else if (ret < 0) printf("st=%d\n", ret);
		else { printf("data="); hex_print(stdout, p, sz); putchar('\n'); }
		return;
	}
	if (strcmp(w[2], "adv") == 0 && nw == 4 && !pu64(w[3], &k)) {
		g_st[j]->advance_buffer(g_st[j], (size_t)k);
		puts("ok");
		return;
	}
	puts("bad-op");
}

void op_data(char **w, int nw)
{
	sqfs_u64 k;
	if (nw < 3 || pu64(w[1], &k) || k >= NDR) { puts("bad-op"); return; }
	if (strcmp(w[2], "new") == 0 && nw == 9) {
		sqfs_u64 bs, ms, loc, cnt, used;
		int st;
		if (pu64(w[3], &bs) || pu64(w[4], &ms) || pu64(w[5], &loc) || pu64(w[6], &cnt) || pu64(w[7], &used)) { puts("bad-op"); return; }
		if (g_dr[k]) sqfs_drop(g_dr[k]);
		g_dr_bs[k] = (sqfs_u32)bs;
		set_super(&g_dr_super[k], bs, ms, loc, cnt, used);
		g_dr[k] = mk_reader((int)k, &st);
		printf("st=%d\n", st);
		return;
	}
	if (!g_dr[k]) { puts("bad-op"); return; }
	if (strcmp(w[2], "reload") == 0 && nw == 7) {
		sqfs_u64 ms, loc, cnt, used;
		if (pu64(w[3], &ms) || pu64(w[4], &loc) || pu64(w[5], &cnt) || pu64(w[6], &used)) { puts("bad-op"); return; }
		set_super(&g_dr_super[k], g_dr_bs[k], ms, loc, cnt, used);
		printf("st=%d\n", sqfs_data_reader_load_fragment_table(g_dr[k], &g_dr_super[k]));
		return;
	}
	if ((strcmp(w[2], "block") == 0 && nw == 9) || (strcmp(w[2], "frag") == 0 && nw == 8) || (strcmp(w[2], "cat") == 0 && nw == 9)) {
		sqfs_u64 arg = 0;
		sqfs_inode_generic_t *ino = mk_inode(w + 3);
		sqfs_data_reader_t *fresh;
		int st, which = w[2][0];
		if (!ino || (nw == 9 && pu64(w[8], &arg))) { free(ino); puts("bad-op"); return; }
		if (which == 'b') do_block(g_dr[k], ino, arg); else if (which == 'f') do_frag(g_dr[k], ino); else do_cat(g_dr[k], ino, arg);
		printf(" || ");
		fresh = mk_reader((int)k, &st);
		if (which == 'b') do_block(fresh, ino, arg); else if (which == 'f') do_frag(fresh, ino); else do_cat(fresh, ino, arg);
		sqfs_drop(fresh);
		putchar('\n');
		free(ino);
		return;
	}
	if (strcmp(w[2], "read") == 0 && nw == 10) {
		sqfs_u64 off, size;
		sqfs_inode_generic_t *ino = mk_inode(w + 3);
		sqfs_data_reader_t *fresh;
		int st;
		if (!ino || pu64(w[8], &off) || pu64(w[9], &size) || size > (1u << 26)) { free(ino); puts("bad-op"); return; }
		do_read(g_dr[k], ino, off, size);
		printf(" || ");
		fresh = mk_reader((int)k, &st);
		do_read(fresh, ino, off, size);
		sqfs_drop(fresh);
		putchar('\n');
		free(ino);
		return;
	}
	puts("bad-op");
}

void h_c10_data_reset(void)
{
	for (int i = 0; i < NST; ++i) { if (g_st[i]) sqfs_drop(g_st[i]); g_st[i] = NULL; }
	for (int i = 0; i < NDR; ++i) { if (g_dr[i]) sqfs_drop(g_dr[i]); g_dr[i] = NULL; }
}
