/*
 * C05 routine-level harness: the real reader routines of libsquashfs on field values chosen by the check,
 * same line protocol as `sqfsmodel c05`.
 *
 * meta_reader.c and data_reader.c are #included (their structs are file-local), everything else comes from
 * the library archive built from the working tree.  The image is an exact-size heap buffer behind a
 * sqfs_file_t, the block "decompressor" is a toy codec the model can compute:
 *     payload = le16 n, rest;  n & 0x8000, size < 2 or n > outsize -> SQFS_ERROR_COMPRESSOR;
 *     else n bytes (out[i] = payload[2 + i % (size-2)] or 0x5a), returns n (0 allowed).
 *
 * Lines (numbers decimal, hex tokens with "-" = empty):
 *   img <hex>                                   set the image
 *   imgz <size> <hex>                           set the image: <size> bytes, the given ones in front, zeroes behind (nothing is
 *                                               stored for the zeroes: a sparse file)
 *   valloc <0|1>                                1: inside the loader calls, requests of more than 256 MiB are granted as address
 *                                               space without memory behind it, so that the code goes on past an allocation the
 *                                               sanitizer's allocator would refuse (what it asks for next is what is compared)
 *   allocs                                      -> allocs <s1,s2,..>: the sizes of 64 KiB and more that the previous line's
 *                                               idtable / fragtable / xload / inode / unpack call handed to malloc/calloc/realloc, in order
 *   mr <start> <limit>                          new meta reader on the image
 *   seek <block> <offset>                       -> ok pos <block> <off> | err <NAME>
 *   read <n>                                    -> ok pos <block> <off> | err <NAME>
 *   getfrag <bs> <filesz> <nblk> <fragidx> <fragoff> <fstart> <fword>
 *                                               one-entry fragment table (fstart,fword); -> ok <size> | err <NAME>
 *   stream <bs> <filesz> <start> <fragidx> <fragoff> <fstart> <fword> <w1,w2,..|->
 *                                               -> sizes of the chunks delivered, then eof | err <NAME>, then the
 *                                                  results of two more calls on the same stream
 *   getblk <bs> <filesz> <start> <index> <w1,w2,..|->      -> ok <size> | err <NAME>
 *   dread <bs> <filesz> <start> <fragidx> <fragoff> <fstart> <fword> <offset> <size> <w1,..|->
 *                                               sqfs_data_reader_read -> ok <n> | err <NAME>
 *   inode <bs> <hex>                            the bytes as one uncompressed metadata block; read_inode at 0:0
 *                                               -> ok <type> <payload_used> | err <NAME>
 *   dirent <hex>                                ditto, sqfs_meta_reader_read_dir_ent -> ok <size> | err <NAME>
 *                                               (the model predicts only ok/err for these two)
 *   unpack <used> <index> <hex payload>         sqfs_inode_unpack_dir_index_entry on a hand-built ext dir inode
 *                                               -> ok <size> | err <NAME>
 *   resolve <hex name> <hex path>               one-entry root directory; sqfs_dir_reader_resolve_path(path)
 *                                               -> ok | err <NAME>
 *   super <hex>                                 the bytes as the file; sqfs_super_read -> ok | err <NAME>
 *   sb <flags> <id_count> <frag_count> <bytes_used> <id_table> <xattr_id_table> <inode_table> <dir_table>
 *      <frag_table> <export_table> <root_ref> <block_size>
 *                                               superblock used by the following operations (on the image of `img`)
 *   idtable                                     sqfs_id_table_read -> ok | err <NAME>
 *   idx <i>                                     sqfs_id_table_index_to_id -> ok <id> | err <NAME>
 *   fragtable                                   sqfs_frag_table_read -> ok | err <NAME>
 *   fragidx <i>                                 sqfs_frag_table_lookup -> ok <start> <size> | err <NAME>
 *   xnew                                        fresh xattr reader
 *   xload                                       sqfs_xattr_reader_load -> ok | err <NAME>
 *   xdesc <idx>                                 sqfs_xattr_reader_get_desc -> ok <xattr> <count> <size> | err <NAME>
 *   xseek <xattr>                               sqfs_xattr_reader_seek_kv -> ok | err <NAME>
 *   xkey                                        sqfs_xattr_reader_read_key -> ok <type> <size> | err <NAME>
 *   xval <key type>                             sqfs_xattr_reader_read_value -> ok <size> | err <NAME>
 *   xall <idx>                                  sqfs_xattr_reader_read_all -> ok <entries> <sum of value sizes> | err
 *   dopen <rdflags> <openflags> <type> <start_block> <offset> <size> <inum> <parent> <inum:ref,..|->
 *                                               dir reader with the given inode number cache; hand-built directory
 *                                               inode; sqfs_dir_reader_open_dir, then the two dot entries
 *                                               -> ok <block> <offset> <size> <state> <dir_ref> <parent_ref>
 *                                                  [. <ref> .. <ref> <state>] | err <NAME>
 *   dirlist <start_block> <offset> <size>       open_dir + sqfs_dir_reader_read until the end
 *                                               -> n=<entries> names=<sum size+1> refs=<sum refs mod 2^32> eof|err <NAME>
 *   cpack <comp id> <block size> <hex data>     the real compressor of the tree (compress mode): -> ok <hex> | raw | err <NAME>
 *   cunpack <comp id> <block size> <outsize> <hex input>
 *                                               the real decompressor: do_block into an exact `outsize` byte heap
 *                                               buffer -> ret <n> | err <NAME> | nocomp (id not compiled in)
 *   dentry <used> <uid_idx> <gid_idx> <len> <hex name>
 *                                               sqfs_dir_entry_from_inode on an id table with <used> ids and a name
 *                                               buffer of exactly the bytes + one NUL -> ok <strlen> | err <NAME>
 */
#include "config.h"
#include "lib/sqfs/src/meta_reader.c"
#undef SWAB16
#include "lib/sqfs/src/data_reader.c"
#include "lib/sqfs/src/dir_reader.c"
#include "sqfs/xattr_reader.h"
#include "sqfs/xattr.h"
#include "sqfs/frag_table.h"
#include "sqfs/dir_entry.h"
#include "sqfs/compressor.h"
#include "sqfs/dir_reader.h"
#include "sqfs/dir.h"
#include "sqfs/id_table.h"
#include "hexio.h"
#include <inttypes.h>

/* ---------------------------------------------------------------- memory file */
typedef struct {
	sqfs_file_t base;
	unsigned char *data;
	size_t have;		/* bytes stored in data; the file goes on with zeroes up to size */
	size_t size;
} memfile_t;

static int mf_read_at(sqfs_file_t *f, sqfs_u64 off, void *buf, size_t size)
{
	memfile_t *m = (memfile_t *)f;
	size_t n = 0;
	if (off > m->size || size > m->size - off)
		return SQFS_ERROR_IO;
	if (off < m->have) {
		n = m->have - off < size ? m->have - off : size;
		memcpy(buf, m->data + off, n);
	}
	if (n < size)
		memset((char *)buf + n, 0, size - n);
	return 0;
}
static int mf_write_at(sqfs_file_t *f, sqfs_u64 o, const void *b, size_t s) { (void)f; (void)o; (void)b; (void)s; return SQFS_ERROR_IO; }
static sqfs_u64 mf_get_size(const sqfs_file_t *f) { return ((const memfile_t *)f)->size; }
static int mf_truncate(sqfs_file_t *f, sqfs_u64 s) { (void)f; (void)s; return SQFS_ERROR_IO; }
static const char *mf_name(sqfs_file_t *f) { (void)f; return "mem"; }
static void mf_destroy(sqfs_object_t *o) { memfile_t *m = (memfile_t *)o; free(m->data); free(m); }

static sqfs_file_t *memfile_new(const unsigned char *p, size_t n)
{
	memfile_t *m = calloc(1, sizeof(*m));
	m->data = malloc(n ? n : 1);
	memcpy(m->data, p, n);
	m->have = n;
	m->size = n;
	((sqfs_object_t *)m)->refcount = 1;
	((sqfs_object_t *)m)->destroy = mf_destroy;
	m->base.read_at = mf_read_at;
	m->base.write_at = mf_write_at;
	m->base.get_size = mf_get_size;
	m->base.truncate = mf_truncate;
	m->base.get_filename = mf_name;
	return (sqfs_file_t *)m;
}

/* ---------------------------------------------------------------- allocator wrapper
 * linked with -Wl,--wrap=malloc,--wrap=calloc,--wrap=realloc,--wrap=free: every request of the library (and of this file)
 * comes through here and goes on to the sanitizer's allocator.  While rec_on is set (around the loader calls) the sizes
 * are written down; with valloc_on a request above VLIMIT gets address space only (MAP_NORESERVE). */
#include <sys/mman.h>
#include <malloc.h>
void *__real_malloc(size_t n);
void *__real_calloc(size_t a, size_t b);
void *__real_realloc(void *p, size_t n);
void __real_free(void *p);

#define REC_MAX 64
#define VLIMIT ((size_t)256 << 20)
#define VMAX 16
static int rec_on, valloc_on;
static size_t rec_sz[REC_MAX];
static int rec_n;
static struct { void *p; size_t n; } vtab[VMAX];

static void rec(size_t n) { if (rec_on && rec_n < REC_MAX) rec_sz[rec_n++] = n; }
static int vfind(void *p)
{
	int i;
	for (i = 0; i < VMAX; ++i)
		if (p != NULL && vtab[i].p == p) return i;
	return -1;
}
static void *vget(size_t n)
{
	int i; void *p;
	for (i = 0; i < VMAX && vtab[i].p != NULL; ++i) ;
	if (i == VMAX) return NULL;
	p = mmap(NULL, n, PROT_READ | PROT_WRITE, MAP_PRIVATE | MAP_ANONYMOUS | MAP_NORESERVE, -1, 0);
	if (p == MAP_FAILED) return NULL;
	vtab[i].p = p; vtab[i].n = n;
	return p;
}
static int vwanted(size_t n) { return rec_on && valloc_on && n > VLIMIT; }
void *__wrap_malloc(size_t n) { rec(n); return vwanted(n) ? vget(n) : __real_malloc(n); }
void *__wrap_calloc(size_t a, size_t b)
{
	size_t n;
	if (__builtin_mul_overflow(a, b, &n)) return __real_calloc(a, b);
	rec(n);
	return vwanted(n) ? vget(n) : __real_calloc(a, b);
}
void __wrap_free(void *p)
{
	int i = vfind(p);
	if (i >= 0) { munmap(vtab[i].p, vtab[i].n); vtab[i].p = NULL; return; }
	__real_free(p);
}
void *__wrap_realloc(void *p, size_t n)
{
	int i = vfind(p);
	rec(n);
	if (i < 0 && !vwanted(n)) return __real_realloc(p, n);
	{
		size_t old = i >= 0 ? vtab[i].n : (p ? malloc_usable_size(p) : 0);
		void *q = vwanted(n) ? vget(n) : __real_malloc(n);
		if (q == NULL) return NULL;
		if (p) memcpy(q, p, old < n ? old : n);
		__wrap_free(p);
		return q;
	}
}
#define REC(call) do { rec_on = 1; call; rec_on = 0; } while (0)

/* ---------------------------------------------------------------- toy codec */
static sqfs_s32 toy_do_block(sqfs_compressor_t *c, const sqfs_u8 *in, sqfs_u32 size, sqfs_u8 *out, sqfs_u32 outsize)
{
	sqfs_u32 n, i;
	(void)c;
	if (size < 2)
		return SQFS_ERROR_COMPRESSOR;
	n = in[0] | ((sqfs_u32)in[1] << 8);
	if (n & 0x8000)
		return SQFS_ERROR_COMPRESSOR;
	if (n > outsize)
		return SQFS_ERROR_COMPRESSOR;
	for (i = 0; i < n; ++i)
		out[i] = size > 2 ? in[2 + i % (size - 2)] : 0x5a;
	return (sqfs_s32)n;
}
static void toy_destroy(sqfs_object_t *o) { free(o); }
static sqfs_compressor_t *toy_new(void)
{
	sqfs_compressor_t *c = calloc(1, sizeof(*c));
	((sqfs_object_t *)c)->refcount = 1;
	((sqfs_object_t *)c)->destroy = toy_destroy;
	c->do_block = toy_do_block;
	return c;
}

/* ---------------------------------------------------------------- helpers */
static const char *ename(int e)
{
	switch (e) {
	case SQFS_ERROR_ALLOC: return "ALLOC";
	case SQFS_ERROR_IO: return "IO";
	case SQFS_ERROR_COMPRESSOR: return "COMPRESSOR";
	case SQFS_ERROR_INTERNAL: return "INTERNAL";
	case SQFS_ERROR_CORRUPTED: return "CORRUPTED";
	case SQFS_ERROR_UNSUPPORTED: return "UNSUPPORTED";
	case SQFS_ERROR_OVERFLOW: return "OVERFLOW";
	case SQFS_ERROR_OUT_OF_BOUNDS: return "OOB";
	case SQFS_ERROR_NOT_DIR: return "NOT_DIR";
	case SQFS_ERROR_NO_ENTRY: return "NO_ENTRY";
	case SQFS_ERROR_LINK_LOOP: return "LINK_LOOP";
	case SQFS_ERROR_NOT_FILE: return "NOT_FILE";
	case SQFS_ERROR_ARG_INVALID: return "ARG_INVALID";
	case SQFS_ERROR_SEQUENCE: return "SEQUENCE";
	case SFQS_ERROR_SUPER_MAGIC: return "SUPER_MAGIC";
	case SFQS_ERROR_SUPER_VERSION: return "SUPER_VERSION";
	case SQFS_ERROR_SUPER_BLOCK_SIZE: return "SUPER_BLOCK_SIZE";
	default: return "OTHER";
	}
}

static unsigned char *img;
static size_t img_len;
static size_t img_total;    /* size of the file (imgz: more than the img_len bytes stored) */
static sqfs_meta_reader_t *mr;
static sqfs_compressor_t *toy;

static sqfs_super_t sb;
static sqfs_id_table_t *idtbl;
static sqfs_frag_table_t *fragtbl;
static sqfs_xattr_reader_t *xr;
static int xpositioned;     /* a sqfs_xattr_reader_seek_kv succeeded since the reader was made/loaded: the API
			       contract of read_key/read_value (without a table they have no reader to read from) */

static sqfs_file_t *imgfile(void)
{
	sqfs_file_t *f = memfile_new(img ? img : (unsigned char *)"", img_len);
	((memfile_t *)f)->size = img_total;
	return f;
}

static sqfs_u32 *parse_words(const char *tok, size_t *count)
{
	size_t n = 0, cap = 16;
	sqfs_u32 *w = malloc(cap * sizeof(*w));
	*count = 0;
	if (strcmp(tok, "-") == 0)
		return w;
	while (*tok) {
		char *end;
		unsigned long long v = strtoull(tok, &end, 10);
		if (end == tok) break;
		if (n == cap) { cap *= 2; w = realloc(w, cap * sizeof(*w)); }
		w[n++] = (sqfs_u32)v;
		tok = (*end == ',') ? end + 1 : end;
	}
	*count = n;
	return w;
}

/* an SQFS_INODE_EXT_FILE inode whose payload area is exactly nblk words (exact-size heap object) */
static sqfs_inode_generic_t *mk_file_inode(sqfs_u64 filesz, sqfs_u64 start, sqfs_u32 fragidx, sqfs_u32 fragoff,
					   const sqfs_u32 *words, size_t nblk)
{
	sqfs_inode_generic_t *ino = calloc(1, sizeof(*ino) + nblk * 4);
	ino->base.type = SQFS_INODE_EXT_FILE;
	ino->base.mode = S_IFREG | 0644;
	ino->data.file_ext.file_size = filesz;
	ino->data.file_ext.blocks_start = start;
	ino->data.file_ext.fragment_idx = fragidx;
	ino->data.file_ext.fragment_offset = fragoff;
	ino->data.file_ext.xattr_idx = 0xFFFFFFFF;
	ino->payload_bytes_available = nblk * 4;
	ino->payload_bytes_used = nblk * 4;
	if (nblk) memcpy(ino->extra, words, nblk * 4);
	return ino;
}

static sqfs_data_reader_t *mk_data_reader(sqfs_file_t *file, sqfs_u32 bs, sqfs_u64 fstart, sqfs_u32 fword)
{
	sqfs_data_reader_t *dr = sqfs_data_reader_create(file, bs, toy, 0);
	if (dr == NULL) return NULL;
	sqfs_frag_table_append(dr->frag_tbl, fstart, fword, NULL);
	dr->current_frag_index = 1;         /* as after sqfs_data_reader_load_fragment_table: = table size */
	return dr;
}

static unsigned long long U(const char *s) { return s ? strtoull(s, NULL, 10) : 0; }

#define MAXTOK 20
int main(void)
{
	static char line[1 << 22];
	toy = toy_new();
	setvbuf(stdout, NULL, _IOLBF, 0);
	while (fgets(line, sizeof(line), stdin)) {
		char *t[MAXTOK];
		int nt = 0;
		char *p = strtok(line, " \n");
		while (p && nt < MAXTOK) { t[nt++] = p; p = strtok(NULL, " \n"); }
		if (nt == 0) { puts("bad-op"); continue; }
		if (!strcmp(t[0], "allocs") && nt == 1) {
			int i, k = 0;
			printf("allocs ");
			for (i = 0; i < rec_n; ++i)
				if (rec_sz[i] >= 65536) printf("%s%zu", k++ ? "," : "", rec_sz[i]);
			printf("\n");
			continue;
		}
		rec_n = 0;

		if (!strcmp(t[0], "img") && nt == 2) {
			unsigned char *b; long n = hex_decode_tok(t[1], &b, 0);
			if (n < 0) { puts("bad-op"); continue; }
			free(img); img = b; img_len = (size_t)n; img_total = img_len;
			puts("ok");
		} else if (!strcmp(t[0], "imgz") && nt == 3) {
			unsigned char *b; long n = hex_decode_tok(t[2], &b, 0);
			if (n < 0 || U(t[1]) < (unsigned long long)n || U(t[1]) > 1073741824ULL) { puts("bad-op"); continue; }
			free(img); img = b; img_len = (size_t)n; img_total = U(t[1]);
			puts("ok");
		} else if (!strcmp(t[0], "valloc") && nt == 2 && (!strcmp(t[1], "0") || !strcmp(t[1], "1"))) {
			valloc_on = t[1][0] == '1';
			puts("ok");
		} else if (!strcmp(t[0], "mr") && nt == 3) {
			sqfs_file_t *f = imgfile();
			sqfs_drop(mr);
			mr = sqfs_meta_reader_create(f, toy, U(t[1]), U(t[2]));
			sqfs_drop(f);
			puts(mr ? "ok" : "err ALLOC");
		} else if (!strcmp(t[0], "seek") && nt == 3 && mr) {
			int r = sqfs_meta_reader_seek(mr, U(t[1]), U(t[2]));
			if (r) printf("err %s\n", ename(r));
			else { sqfs_u64 b; size_t o; sqfs_meta_reader_get_position(mr, &b, &o); printf("ok pos %" PRIu64 " %zu\n", b, o); }
		} else if (!strcmp(t[0], "read") && nt == 2 && mr) {
			size_t n = U(t[1]);
			void *buf = malloc(n ? n : 1);
			int r = sqfs_meta_reader_read(mr, buf, n);
			free(buf);
			if (r) printf("err %s\n", ename(r));
			else { sqfs_u64 b; size_t o; sqfs_meta_reader_get_position(mr, &b, &o); printf("ok pos %" PRIu64 " %zu\n", b, o); }
		} else if (!strcmp(t[0], "getfrag") && nt == 8) {
			sqfs_file_t *f = imgfile();
			sqfs_u32 bs = U(t[1]);
			size_t nblk = U(t[3]), sz = 0;
			sqfs_u32 *w = calloc(nblk ? nblk : 1, 4);
			sqfs_data_reader_t *dr = mk_data_reader(f, bs, U(t[6]), U(t[7]));
			sqfs_inode_generic_t *ino = mk_file_inode(U(t[2]), 0, U(t[4]), U(t[5]), w, nblk);
			sqfs_u8 *out = NULL;
			int r = sqfs_data_reader_get_fragment(dr, ino, &sz, &out);
			if (r) printf("err %s\n", ename(r)); else printf("ok %zu\n", sz);
			free(out); free(ino); free(w); sqfs_drop(dr); sqfs_drop(f);
		} else if (!strcmp(t[0], "stream") && nt == 9) {
			sqfs_file_t *f = imgfile();
			sqfs_u32 bs = U(t[1]);
			size_t nblk; sqfs_u32 *w = parse_words(t[8], &nblk);
			sqfs_data_reader_t *dr = mk_data_reader(f, bs, U(t[6]), U(t[7]));
			sqfs_inode_generic_t *ino = mk_file_inode(U(t[2]), U(t[3]), U(t[4]), U(t[5]), w, nblk);
			sqfs_istream_t *in = NULL;
			int r = sqfs_data_reader_create_stream(dr, ino, "f", &in), guard = 0;
			if (r) printf("err %s\n", ename(r));
			else {
				int ended = 0;        /* calls made after the first eof/error: the stream is used on twice more */
				for (;;) {
					const sqfs_u8 *ptr; size_t sz;
					r = in->get_buffered_data(in, &ptr, &sz, bs);
					if (r != 0) {
						if (r > 0) printf("eof"); else printf("err %s", ename(r));
						if (++ended > 2) { printf("\n"); break; }
						printf(" ");
						continue;
					}
					printf("%zu ", sz);
					in->advance_buffer(in, sz);
					if (++guard > 4096) { printf("toolong\n"); break; }
				}
				sqfs_drop(in);
			}
			free(ino); free(w); sqfs_drop(dr); sqfs_drop(f);
		} else if (!strcmp(t[0], "getblk") && nt == 6) {
			sqfs_file_t *f = imgfile();
			sqfs_u32 bs = U(t[1]);
			size_t nblk, sz = 0; sqfs_u32 *w = parse_words(t[5], &nblk);
			sqfs_data_reader_t *dr = mk_data_reader(f, bs, 0, 0);
			sqfs_inode_generic_t *ino = mk_file_inode(U(t[2]), U(t[3]), 0xFFFFFFFF, 0, w, nblk);
			sqfs_u8 *out = NULL;
			int r = sqfs_data_reader_get_block(dr, ino, U(t[4]), &sz, &out);
			if (r) printf("err %s\n", ename(r)); else printf("ok %zu\n", sz);
			free(out); free(ino); free(w); sqfs_drop(dr); sqfs_drop(f);
		} else if (!strcmp(t[0], "dread") && nt == 11) {
			sqfs_file_t *f = imgfile();
			sqfs_u32 bs = U(t[1]), size = U(t[9]);
			size_t nblk; sqfs_u32 *w = parse_words(t[10], &nblk);
			sqfs_data_reader_t *dr = mk_data_reader(f, bs, U(t[6]), U(t[7]));
			sqfs_inode_generic_t *ino = mk_file_inode(U(t[2]), U(t[3]), U(t[4]), U(t[5]), w, nblk);
			void *buf = malloc(size ? size : 1);
			sqfs_s32 r = sqfs_data_reader_read(dr, ino, U(t[8]), buf, size);
			if (r < 0) printf("err %s\n", ename(r)); else printf("ok %d\n", (int)r);
			free(buf); free(ino); free(w); sqfs_drop(dr); sqfs_drop(f);
		} else if ((!strcmp(t[0], "inode") && nt == 3) || (!strcmp(t[0], "dirent") && nt == 2)) {
			int is_ino = t[0][0] == 'i';
			unsigned char *b; long n = hex_decode_tok(t[is_ino ? 2 : 1], &b, 0);
			unsigned char *blk; sqfs_file_t *f; sqfs_meta_reader_t *m; int r;
			if (n < 0 || n > 8192) { puts("bad-op"); continue; }
			blk = malloc(n + 2);
			blk[0] = n & 0xff; blk[1] = ((n >> 8) & 0x7f) | 0x80;
			memcpy(blk + 2, b, n);
			f = memfile_new(blk, n + 2);
			m = sqfs_meta_reader_create(f, toy, 0, n + 2);
			if (is_ino) {
				sqfs_super_t super; sqfs_inode_generic_t *ino = NULL;
				memset(&super, 0, sizeof(super));
				super.block_size = U(t[1]);
				unsigned ty = 0, used = 0;
				REC(r = sqfs_meta_reader_read_inode(m, &super, 0, 0, &ino));
				if (!r) { ty = ino->base.type; used = ino->payload_bytes_used; }
				/* released the way sqfs_dir_reader_resolve_path does it: also after a failed call
				   (ino was NULL before); done before the answer is printed so that a crash here is
				   attributed to this line */
				free(ino);
				if (r) printf("err %s\n", ename(r)); else printf("ok %u %u\n", ty, used);
			} else {
				sqfs_dir_node_t *ent = NULL;
				r = sqfs_meta_reader_seek(m, 0, 0);
				if (!r) r = sqfs_meta_reader_read_dir_ent(m, &ent);
				if (r) printf("err %s\n", ename(r)); else printf("ok %u\n", (unsigned)ent->size);
				free(ent);
			}
			sqfs_drop(m); sqfs_drop(f); free(blk); free(b);
		} else if (!strcmp(t[0], "unpack") && nt == 4) {
			unsigned char *b; long n = hex_decode_tok(t[3], &b, 0);
			sqfs_inode_generic_t *ino; sqfs_dir_index_t *idx = NULL; int r;
			if (n < 0) { puts("bad-op"); continue; }
			ino = calloc(1, sizeof(*ino) + n);      /* exact size: ASan sees every byte past the payload */
			ino->base.type = SQFS_INODE_EXT_DIR;
			ino->data.dir_ext.size = 100;
			ino->payload_bytes_used = U(t[1]);
			ino->payload_bytes_available = n;
			memcpy(ino->extra, b, n);
			REC(r = sqfs_inode_unpack_dir_index_entry(ino, &idx, U(t[2])));   /* with `valloc 1` a huge request is granted: the copy that follows is what shows */
			if (r) printf("err %s\n", ename(r)); else printf("ok %u\n", (unsigned)idx->size);
			free(idx); free(ino); free(b);
		} else if (!strcmp(t[0], "resolve") && nt == 3) {
			unsigned char *nm, *pa; long nn = hex_decode_tok(t[1], &nm, 0), pn = hex_decode_tok(t[2], &pa, 0);
			unsigned char im[2 + 32 + 2 + 12 + 8 + 65536 + 8]; size_t o = 0, dirsz;
			sqfs_super_t super; sqfs_file_t *f; sqfs_dir_reader_t *rd; char *path; sqfs_u64 ref = 0; int r;
			if (nn < 1 || nn > 65536 || pn < 0 || memchr(pa, 0, pn)) { puts("bad-op"); continue; }
			dirsz = 12 + 8 + nn + 3;          /* listing size field counts 3 extra bytes */
			/* inode table: one uncompressed block with the root directory inode */
			im[o++] = 32; im[o++] = 0x80;
			memset(im + o, 0, 32);
			im[o] = SQFS_INODE_DIR; im[o + 2] = 0xed; im[o + 3] = 0x41; im[o + 12] = 1;   /* type, mode, inode_number */
			im[o + 16 + 4] = 2;                                                         /* nlink */
			im[o + 16 + 8] = dirsz & 0xff; im[o + 16 + 9] = (dirsz >> 8) & 0xff;          /* size (u16) */
			o += 32;
			memset(&super, 0, sizeof(super));
			super.inode_table_start = 0;
			super.directory_table_start = o;
			/* directory table: header (count-1 = 0, start_block 0, inode_number 2) + one entry */
			im[o] = (12 + 8 + nn) & 0xff; im[o + 1] = (((12 + 8 + nn) >> 8) & 0x7f) | 0x80; o += 2;
			memset(im + o, 0, 12); im[o + 8] = 2; o += 12;
			memset(im + o, 0, 8); im[o + 4] = SQFS_INODE_DIR; im[o + 6] = (nn - 1) & 0xff; im[o + 7] = ((nn - 1) >> 8) & 0xff; o += 8;
			memcpy(im + o, nm, nn); o += nn;
			super.id_table_start = super.fragment_table_start = super.export_table_start = o;
			super.bytes_used = o;
			super.root_inode_ref = 0;
			super.block_size = 4096;
			if (dirsz > 0xffff) { puts("bad-op"); free(nm); free(pa); continue; }
			f = memfile_new(im, o);
			rd = sqfs_dir_reader_create(&super, toy, f, 0);
			path = malloc(pn + 1);              /* exact size */
			memcpy(path, pa, pn); path[pn] = 0;
			r = sqfs_dir_reader_resolve_path(rd, path, NULL, &ref);
			if (r) printf("err %s\n", ename(r)); else puts("ok");
			free(path); sqfs_drop(rd); sqfs_drop(f); free(nm); free(pa);
		} else if (!strcmp(t[0], "super") && nt == 2) {
			unsigned char *b; long n = hex_decode_tok(t[1], &b, 0);
			sqfs_super_t sup; sqfs_file_t *f; int r;
			if (n < 0) { puts("bad-op"); continue; }
			f = memfile_new(b, n);
			r = sqfs_super_read(&sup, f);
			if (r) printf("err %s\n", ename(r)); else puts("ok");
			sqfs_drop(f); free(b);
		} else if (!strcmp(t[0], "sb") && nt == 13) {
			memset(&sb, 0, sizeof(sb));
			sb.flags = U(t[1]); sb.id_count = U(t[2]); sb.fragment_entry_count = U(t[3]); sb.bytes_used = U(t[4]);
			sb.id_table_start = U(t[5]); sb.xattr_id_table_start = U(t[6]); sb.inode_table_start = U(t[7]);
			sb.directory_table_start = U(t[8]); sb.fragment_table_start = U(t[9]); sb.export_table_start = U(t[10]);
			sb.root_inode_ref = U(t[11]); sb.block_size = U(t[12]);
			puts("ok");
		} else if (!strcmp(t[0], "idtable") && nt == 1) {
			sqfs_file_t *f = imgfile(); int r;
			sqfs_drop(idtbl);
			idtbl = sqfs_id_table_create(0);
			REC(r = sqfs_id_table_read(idtbl, f, &sb, toy));
			if (r) printf("err %s\n", ename(r)); else puts("ok");
			sqfs_drop(f);
		} else if (!strcmp(t[0], "idx") && nt == 2 && idtbl) {
			sqfs_u32 v = 0; int r = sqfs_id_table_index_to_id(idtbl, U(t[1]), &v);
			if (r) printf("err %s\n", ename(r)); else printf("ok %u\n", (unsigned)v);
		} else if (!strcmp(t[0], "fragtable") && nt == 1) {
			sqfs_file_t *f = imgfile(); int r;
			sqfs_drop(fragtbl);
			fragtbl = sqfs_frag_table_create(0);
			REC(r = sqfs_frag_table_read(fragtbl, f, &sb, toy));
			if (r) printf("err %s\n", ename(r)); else puts("ok");
			sqfs_drop(f);
		} else if (!strcmp(t[0], "fragidx") && nt == 2 && fragtbl) {
			sqfs_fragment_t fr; int r = sqfs_frag_table_lookup(fragtbl, U(t[1]), &fr);
			if (r) printf("err %s\n", ename(r)); else printf("ok %" PRIu64 " %u\n", (sqfs_u64)fr.start_offset, (unsigned)fr.size);
		} else if (!strcmp(t[0], "xnew") && nt == 1) {
			sqfs_drop(xr);
			xr = sqfs_xattr_reader_create(0);
			xpositioned = 0;
			puts(xr ? "ok" : "err ALLOC");
		} else if (!strcmp(t[0], "xload") && nt == 1 && xr) {
			sqfs_file_t *f = imgfile();
			int r;
			REC(r = sqfs_xattr_reader_load(xr, &sb, f, toy));
			xpositioned = 0;
			if (r) printf("err %s\n", ename(r)); else puts("ok");
			sqfs_drop(f);
		} else if (!strcmp(t[0], "xdesc") && nt == 2 && xr) {
			sqfs_xattr_id_t d; int r = sqfs_xattr_reader_get_desc(xr, U(t[1]), &d);
			if (r) printf("err %s\n", ename(r));
			else printf("ok %" PRIu64 " %u %u\n", (sqfs_u64)d.xattr, (unsigned)d.count, (unsigned)d.size);
		} else if (!strcmp(t[0], "xseek") && nt == 2 && xr) {
			sqfs_xattr_id_t d; int r;
			memset(&d, 0, sizeof(d)); d.xattr = U(t[1]);
			r = sqfs_xattr_reader_seek_kv(xr, &d);
			xpositioned = (r == 0);
			if (r) printf("err %s\n", ename(r)); else puts("ok");
		} else if (!strcmp(t[0], "xkey") && nt == 1 && xr && xpositioned) {
			sqfs_xattr_entry_t *k = NULL; int r = sqfs_xattr_reader_read_key(xr, &k);
			if (r) printf("err %s\n", ename(r)); else printf("ok %u %u\n", (unsigned)k->type, (unsigned)k->size);
			sqfs_free(k);
		} else if (!strcmp(t[0], "xval") && nt == 2 && xr && xpositioned) {
			sqfs_xattr_entry_t k; sqfs_xattr_value_t *v = NULL; int r;
			memset(&k, 0, sizeof(k)); k.type = U(t[1]);
			r = sqfs_xattr_reader_read_value(xr, &k, &v);
			if (r) printf("err %s\n", ename(r)); else printf("ok %u\n", (unsigned)v->size);
			sqfs_free(v);
		} else if (!strcmp(t[0], "xall") && nt == 2 && xr) {
			sqfs_xattr_t *l = NULL, *it; unsigned long long n = 0, sum = 0;
			int r = sqfs_xattr_reader_read_all(xr, U(t[1]), &l);
			for (it = l; it != NULL; it = it->next) { ++n; sum += it->value_len; }
			if (r) printf("err %s\n", ename(r)); else printf("ok %llu %llu\n", n, sum);
			sqfs_xattr_list_free(l);
		} else if (!strcmp(t[0], "dopen") && nt == 10) {
			sqfs_file_t *f = imgfile();
			sqfs_u32 rdflags = U(t[1]);
			sqfs_dir_reader_t *rd = rdflags <= 1 ? sqfs_dir_reader_create(&sb, toy, f, rdflags) : NULL;
			sqfs_inode_generic_t *ino = calloc(1, sizeof(*ino));
			sqfs_dir_reader_state_t st; const char *c = t[9]; int r;
			if (rd == NULL) { puts("bad-op"); sqfs_drop(f); free(ino); continue; }
			while (rdflags == 1 && *c && *c != '-') {
				char *e; sqfs_u32 inum = strtoull(c, &e, 10); sqfs_u64 ref;
				if (*e != ':') break;
				ref = strtoull(e + 1, &e, 10);
				if (rbtree_lookup(&rd->dcache, &inum) == NULL) rbtree_insert(&rd->dcache, &inum, &ref);
				c = (*e == ',') ? e + 1 : e;
			}
			ino->base.type = U(t[3]);
			ino->base.inode_number = U(t[7]);
			if (ino->base.type == SQFS_INODE_DIR) {
				ino->data.dir.start_block = U(t[4]); ino->data.dir.offset = U(t[5]);
				ino->data.dir.size = U(t[6]); ino->data.dir.parent_inode = U(t[8]);
			} else {
				ino->data.dir_ext.start_block = U(t[4]); ino->data.dir_ext.offset = U(t[5]);
				ino->data.dir_ext.size = U(t[6]); ino->data.dir_ext.parent_inode = U(t[8]);
			}
			r = sqfs_dir_reader_open_dir(rd, ino, &st, U(t[2]));
			if (r) printf("err %s\n", ename(r));
			else {
				printf("ok %" PRIu64 " %zu %zu %u %" PRIu64 " %" PRIu64, (sqfs_u64)st.cursor.block, st.cursor.offset,
				       st.cursor.size, (unsigned)st.state, (sqfs_u64)st.dir_ref, (sqfs_u64)st.parent_ref);
				if (st.state == DIR_STATE_OPENED) {
					sqfs_dir_node_t *e1 = NULL, *e2 = NULL; sqfs_u64 r1, r2;
					int a = sqfs_dir_reader_read(rd, &st, &e1); r1 = st.ent_ref;
					int b = sqfs_dir_reader_read(rd, &st, &e2); r2 = st.ent_ref;
					if (a == 0 && b == 0 && e1->size == strlen((char *)e1->name) - 1 && e2->size == strlen((char *)e2->name) - 1)
						printf(" %s %" PRIu64 " %s %" PRIu64 " %u", (char *)e1->name, r1, (char *)e2->name, r2, (unsigned)st.state);
					else printf(" ?");
					free(e1); free(e2);
				}
				printf("\n");
			}
			free(ino); sqfs_drop(rd); sqfs_drop(f);
		} else if (!strcmp(t[0], "dirlist") && nt == 4) {
			sqfs_file_t *f = imgfile();
			sqfs_dir_reader_t *rd = sqfs_dir_reader_create(&sb, toy, f, 0);
			sqfs_inode_generic_t *ino = calloc(1, sizeof(*ino));
			sqfs_dir_reader_state_t st; int r; unsigned long long n = 0, names = 0, refs = 0;
			ino->base.type = SQFS_INODE_EXT_DIR; ino->base.inode_number = 1;
			ino->data.dir_ext.start_block = U(t[1]); ino->data.dir_ext.offset = U(t[2]);
			ino->data.dir_ext.size = U(t[3]); ino->data.dir_ext.parent_inode = 1;
			r = sqfs_dir_reader_open_dir(rd, ino, &st, 0);
			if (r) printf("err %s\n", ename(r));
			else {
				for (;;) {
					sqfs_dir_node_t *e = NULL;
					if (n > 5000) { printf("n=%llu names=%llu refs=%llu toolong\n", n, names, refs); break; }
					r = sqfs_dir_reader_read(rd, &st, &e);
					if (r > 0) { printf("n=%llu names=%llu refs=%llu eof\n", n, names, refs); break; }
					if (r < 0) { printf("n=%llu names=%llu refs=%llu err %s\n", n, names, refs, ename(r)); break; }
					++n; names += e->size + 1; refs = (refs + st.ent_ref) & 0xFFFFFFFFULL;
					free(e);
				}
			}
			free(ino); sqfs_drop(rd); sqfs_drop(f);
		} else if ((!strcmp(t[0], "cpack") && nt == 4) || (!strcmp(t[0], "cunpack") && nt == 5)) {
			int un = t[0][1] == 'u';
			unsigned char *b; long n = hex_decode_tok(t[un ? 4 : 3], &b, 0);
			sqfs_compressor_config_t cfg; sqfs_compressor_t *cmp = NULL; sqfs_u32 outsize; sqfs_u8 *in, *out; sqfs_s32 r;
			if (n < 0) { puts("bad-op"); continue; }
			if (sqfs_compressor_config_init(&cfg, U(t[1]), U(t[2]), un ? SQFS_COMP_FLAG_UNCOMPRESS : 0) ||
			    sqfs_compressor_create(&cfg, &cmp)) { puts("nocomp"); free(b); continue; }
			outsize = un ? U(t[3]) : (sqfs_u32)n;
			in = malloc(n ? n : 1); memcpy(in, b, n);     /* exact sizes: every byte beyond is red zone */
			if (n == 0) { free(in); in = malloc(0); }
			out = malloc(outsize);
			r = cmp->do_block(cmp, in, n, out, outsize);
			if (r < 0) printf("err %s\n", ename(r));
			else if (un) printf("ret %d\n", (int)r);
			else if (r == 0) puts("raw");
			else { long i; printf("ok "); for (i = 0; i < r; ++i) printf("%02x", out[i]); printf("\n"); }
			free(in); free(out); sqfs_drop(cmp); free(b);
		} else if (!strcmp(t[0], "dentry") && nt == 6) {
			unsigned char *nm; long nn = hex_decode_tok(t[5], &nm, 0);
			size_t used = U(t[1]), len = U(t[4]), i; char *name;
			sqfs_id_table_t *tbl; sqfs_inode_generic_t *ino; sqfs_dir_entry_t *ent = NULL; int r;
			if (nn < 0 || len > (size_t)nn + 1 || used > 65535) { puts("bad-op"); continue; }
			tbl = sqfs_id_table_create(0);
			for (i = 0; i < used; ++i) { sqfs_u16 ix; sqfs_id_table_id_to_index(tbl, 1000 + i, &ix); }
			ino = calloc(1, sizeof(*ino));
			ino->base.type = SQFS_INODE_FILE; ino->base.mode = S_IFREG | 0644;
			ino->base.uid_idx = U(t[2]); ino->base.gid_idx = U(t[3]);
			name = malloc(nn + 1);                  /* exact size: the bytes and one terminator */
			memcpy(name, nm, nn); name[nn] = 0;
			r = sqfs_dir_entry_from_inode(name, len, ino, tbl, &ent);
			if (r) printf("err %s\n", ename(r)); else printf("ok %zu\n", strlen(ent->name));
			free(ent); free(name); free(ino); sqfs_drop(tbl); free(nm);
		} else puts("bad-op");
	}
	return 0;
}
