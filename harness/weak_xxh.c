/*
 * C08 hook prescribed by the property: lib/util/src/xxhash.c is compiled with its entry point renamed
 * (here by #include under a #define, which is the same as -Dxxh32=xxh32_real for that one translation unit)
 * and this wrapper is what the rest of the library links against.  It keeps only the low VERIF_XXH_BITS
 * bits (environment, 0..32, default 32 = unchanged) of the real checksum, so that distinct blocks / fragments
 * of equal size collide all the time.  verif_xxh_bits can also be set directly by a harness.
 */
#define xxh32 xxh32_real
#include "lib/util/src/xxhash.c"
#undef xxh32

#include <stdlib.h>

int verif_xxh_bits = 32;

/* read once before main() so that worker threads only ever read the variable */
__attribute__((constructor)) static void verif_xxh_init(void)
{
	const char *e = getenv("VERIF_XXH_BITS");
	int b = e ? atoi(e) : 32;
	verif_xxh_bits = (b < 0 || b > 32) ? 32 : b;
}

sqfs_u32 xxh32(const void *input, const size_t len)
{
	sqfs_u32 h = xxh32_real(input, len);

	if (verif_xxh_bits >= 32)
		return h;
	return h & ((1u << verif_xxh_bits) - 1u);
}
