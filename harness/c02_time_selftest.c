/*
 * C02: proves that harness/shim_c02_time.c is bound and answers the faked wall clock behind every entry point it hooks (run by
 * tools/checks/c02.py with the same LD_PRELOAD / C02_FAKE_TIME / C02_TIME_LOG environment as the packers).  Prints one line; the
 * check compares every value with C02_FAKE_TIME and requires one `read` record per call, in this order, in the log.  The monotonic
 * clock must stay real (two reads 2 ms apart differ and are not the fake value).
 */
#define _GNU_SOURCE
#include <stdio.h>
#include <sys/time.h>
#include <sys/timeb.h>
#include <time.h>

int main(void)
{
	time_t a, b = 0, (*volatile timep)(time_t *) = time;          /* through a pointer: no builtin, no folding */
	struct timeval tv = {0, 0};
	struct timespec c = {0, 0}, co = {0, 0}, g = {0, 0}, m0 = {0, 0}, m1 = {0, 0}, nap = {0, 2000000};
	struct timeb fb;
	int base;
	a = timep(NULL);
	timep(&b);
	gettimeofday(&tv, NULL);
	clock_gettime(CLOCK_REALTIME, &c);
	clock_gettime(CLOCK_REALTIME_COARSE, &co);
	base = timespec_get(&g, TIME_UTC);
	ftime(&fb);
	clock_gettime(CLOCK_MONOTONIC, &m0);
	nanosleep(&nap, NULL);
	clock_gettime(CLOCK_MONOTONIC, &m1);
	printf("time=%lld time_arg=%lld gettimeofday=%lld.%06ld clock_gettime=%lld.%09ld clock_gettime_coarse=%lld timespec_get=%lld.%09ld base_ok=%d "
	       "ftime=%lld monotonic_advances=%d\n", (long long)a, (long long)b, (long long)tv.tv_sec, (long)tv.tv_usec, (long long)c.tv_sec,
	       (long)c.tv_nsec, (long long)co.tv_sec, (long long)g.tv_sec, (long)g.tv_nsec, base == TIME_UTC, (long long)fb.time,
	       m1.tv_sec > m0.tv_sec || (m1.tv_sec == m0.tv_sec && m1.tv_nsec > m0.tv_nsec));
	return 0;
}
