/*
 * C09, serial pool: the real lib/util/src/threadpool_serial.c against `serial` lines of `sqfsmodel c09`:
 *   serial <rcspec> <op>*        op: s<d> | q | g | x      -> API return values, comma separated
 * `x` (destroy) must be the last op of a line; ops after it are answered `after-destroy`.
 */
#include "config.h"
#include "util/threadpool.h"
#include <stdio.h>
#include <stdlib.h>
#include <string.h>

#define MAXITEM 4096
static int rc_tbl[MAXITEM];
static unsigned int vals[MAXITEM];
static int ncalls;

static int cb(void *user, void *item)
{
	int d = (int)((unsigned int *)item - vals);
	(void)user;
	++ncalls;
	return rc_tbl[d];
}

static int parse_rcspec(char *s)
{
	memset(rc_tbl, 0, sizeof(rc_tbl));
	if (strcmp(s, "-") == 0)
		return 0;
	while (*s) {
		char *e;
		long d = strtol(s, &e, 10), r;
		if (e == s || *e != ':' || d < 0 || d >= MAXITEM)
			return -1;
		s = e + 1;
		r = strtol(s, &e, 10);
		if (e == s)
			return -1;
		rc_tbl[d] = (int)r;
		s = e;
		if (*s == ',')
			++s;
		else if (*s)
			return -1;
	}
	return 0;
}

int main(void)
{
	static char line[1 << 16];
	while (fgets(line, sizeof(line), stdin)) {
		char *save = NULL, *tok;
		char *cmd = strtok_r(line, " \n", &save), *rcs = strtok_r(NULL, " \n", &save);
		thread_pool_t *p;
		int first = 1;
		if (!cmd || strcmp(cmd, "serial") != 0 || !rcs || parse_rcspec(rcs) != 0) {
			puts("bad-op");
			continue;
		}
		p = thread_pool_create_serial(cb);
		if (!p)
			abort();
		while ((tok = strtok_r(NULL, " \n", &save)) != NULL) {
			if (p == NULL) {
				fputs(first ? "after-destroy" : ",after-destroy", stdout);
				first = 0;
				continue;
			}
			if (!first)
				putchar(',');
			first = 0;
			if (tok[0] == 's' && atoi(tok + 1) < MAXITEM) {
				printf("sub:%d", p->submit(p, &vals[atoi(tok + 1)]));
			} else if (strcmp(tok, "q") == 0) {
				unsigned int *r = p->dequeue(p);
				if (r)
					printf("deq:%d", (int)(r - vals));
				else
					fputs("deq:null", stdout);
			} else if (strcmp(tok, "g") == 0) {
				printf("st:%d", p->get_status(p));
			} else if (strcmp(tok, "x") == 0) {
				p->destroy(p);
				p = NULL;
				fputs("destroyed", stdout);
			} else {
				fputs("bad-op", stdout);
			}
		}
		if (first)
			putchar('-');
		putchar('\n');
		if (p)
			p->destroy(p);
	}
	return 0;
}
