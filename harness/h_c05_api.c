/*
 * C05 library-API driver: walks an image through the public reader API of libsquashfs the way a careful client
 * would (every return value checked), but keeps *using* every object after a call on it failed — the API does not
 * forbid that.  Exit 0 = all calls returned (success or error); the last line of stdout is always
 * `calls=<n> errors=<n> entries=<n> stopped=<where>` (the check refuses a run without it or with calls=0: a silent
 * no-op is not a pass); exit 3 = the image file itself could not be opened.  Memory errors are reported by ASan/UBSan,
 * hangs by the caller's timeout.  Own loop protection: a directory is entered once per inode reference and the
 * number of visited entries is capped, so that a timeout is never this driver's own doing.
 *
 *   h_c05_api <image> [seed]
 */
#include "config.h"
#include "sqfs/super.h"
#include "sqfs/compressor.h"
#include "sqfs/io.h"
#include "sqfs/id_table.h"
#include "sqfs/dir_reader.h"
#include "sqfs/data_reader.h"
#include "sqfs/xattr_reader.h"
#include "sqfs/meta_reader.h"
#include "sqfs/inode.h"
#include "sqfs/dir.h"
#include "sqfs/dir_entry.h"
#include "sqfs/xattr.h"
#include "sqfs/error.h"
#include "sqfs/block.h"
#include <stdio.h>
#include <stdlib.h>
#include <string.h>
#include <sys/stat.h>

#define MAX_ENTRIES 3000
#define MAX_DEPTH 64
#define MAX_BLOCKS 64

static sqfs_super_t super;
static sqfs_file_t *file;
static sqfs_compressor_t *cmp;
static sqfs_id_table_t *idtbl;
static sqfs_dir_reader_t *dr, *dr_dot;
static sqfs_data_reader_t *data;
static sqfs_xattr_reader_t *xr;
static unsigned long calls, errors, entries, strbytes;
static unsigned int rng_state = 12345;
static sqfs_u64 seen[4096];
static size_t nseen;
static char *paths[256];
static size_t npaths;

static unsigned int rnd(void) { rng_state = rng_state * 1103515245u + 12345u; return (rng_state >> 16) & 0x7fff; }
static int chk(int r) { calls++; if (r < 0) errors++; return r; }

static void exercise_file(const sqfs_inode_generic_t *ino, const char *name)
{
	size_t i, n = sqfs_inode_get_file_block_count(ino), sz;
	sqfs_u64 filesz = 0;
	sqfs_u8 *out;
	sqfs_istream_t *in;
	char buf[700];
	int r;

	sqfs_inode_get_file_size(ino, &filesz);
	for (i = 0; i < n && i < MAX_BLOCKS; ++i) {
		out = NULL;
		if (chk(sqfs_data_reader_get_block(data, ino, i, &sz, &out)) == 0)
			free(out);
	}
	out = NULL;
	if (chk(sqfs_data_reader_get_block(data, ino, n, &sz, &out)) == 0)
		free(out);
	out = NULL;
	if (chk(sqfs_data_reader_get_fragment(data, ino, &sz, &out)) == 0)
		free(out);
	{
		sqfs_u64 offs[6] = { 0, 1, super.block_size, super.block_size - 1, filesz > 10 ? filesz - 10 : 0, filesz };
		for (i = 0; i < 6; ++i)
			chk(sqfs_data_reader_read(data, ino, offs[i], buf, (rnd() % sizeof(buf)) + 1));
		chk(sqfs_data_reader_read(data, ino, (sqfs_u64)rnd() * rnd(), buf, sizeof(buf)));
	}
	in = NULL;
	if (chk(sqfs_data_reader_create_stream(data, ino, name, &in)) == 0) {
		int guard = 0;
		for (;;) {
			const sqfs_u8 *p;
			r = in->get_buffered_data(in, &p, &sz, super.block_size);
			calls++;
			if (r != 0) { if (r < 0) errors++; break; }
			if (sz) { volatile sqfs_u8 x = p[0] ^ p[sz - 1]; (void)x; }
			in->advance_buffer(in, (guard & 1) ? sz : (sz + 1) / 2);
			if (++guard > 2 * MAX_BLOCKS) break;
		}
		/* keep using the stream after it reported an error / EOF */
		{ const sqfs_u8 *p; r = in->get_buffered_data(in, &p, &sz, 1); calls++; }
		sqfs_drop(in);
	}
}

static void exercise_xattr(const sqfs_inode_generic_t *ino)
{
	sqfs_u32 idx = 0xFFFFFFFF;
	sqfs_xattr_id_t desc;
	sqfs_xattr_t *list = NULL;
	size_t i;

	if (xr == NULL || sqfs_inode_get_xattr_index(ino, &idx) != 0)
		return;
	if (chk(sqfs_xattr_reader_read_all(xr, idx, &list)) == 0) {
		sqfs_xattr_t *it;
		/* a client prints keys as strings and copies value_len bytes */
		for (it = list; it != NULL; it = it->next) {
			strbytes += strlen(it->key);
			if (it->value_len) { volatile sqfs_u8 x = it->value[0] ^ it->value[it->value_len - 1]; (void)x; }
			strbytes += it->value[it->value_len];       /* the terminator the API promises */
		}
		sqfs_xattr_list_free(list);
	}
	if (idx == 0xFFFFFFFF)
		return;
	if (chk(sqfs_xattr_reader_get_desc(xr, idx, &desc)) != 0)
		return;
	if (chk(sqfs_xattr_reader_seek_kv(xr, &desc)) != 0)
		return;
	for (i = 0; i < desc.count && i < 64; ++i) {
		sqfs_xattr_entry_t *key = NULL;
		sqfs_xattr_value_t *val = NULL;
		if (chk(sqfs_xattr_reader_read_key(xr, &key)) != 0) {
			/* use the reader again after the failure */
			chk(sqfs_xattr_reader_read_key(xr, &key));
			break;
		}
		strbytes += strlen((const char *)key->key);       /* rdsquashfs hands it to lsetxattr() as a C string */
		if (chk(sqfs_xattr_reader_read_value(xr, key, &val)) == 0) {
			if (val->size) { volatile sqfs_u8 x = val->value[0] ^ val->value[val->size - 1]; (void)x; }
			strbytes += val->value[val->size];              /* allocated with one spare zero byte */
			free(val);
		}
		free(key);
	}
}

static void walk(sqfs_dir_reader_t *rd, const sqfs_inode_generic_t *dir, const char *prefix, int depth)
{
	sqfs_dir_reader_state_t st;
	sqfs_dir_node_t *ent;
	int r;

	if (depth > MAX_DEPTH || chk(sqfs_dir_reader_open_dir(rd, dir, &st, 0)) != 0)
		return;
	if (dir->base.type == SQFS_INODE_EXT_DIR) {
		size_t i;
		for (i = 0; i < 300; ++i) {
			sqfs_dir_index_t *idx = NULL;
			r = chk(sqfs_inode_unpack_dir_index_entry(dir, &idx, i));
			if (r != 0) break;
			free(idx);
		}
	}
	for (;;) {
		sqfs_inode_generic_t *ino = NULL;
		sqfs_dir_entry_t *de = NULL;
		char *path;
		size_t k, plen;
		int is_dir, dup = 0;

		ent = NULL;
		r = chk(sqfs_dir_reader_read(rd, &st, &ent));
		if (r > 0) break;
		if (r < 0) {
			/* the state/readers are used again after an error */
			r = chk(sqfs_dir_reader_read(rd, &st, &ent));
			if (r != 0) break;
		}
		if (++entries > MAX_ENTRIES) { free(ent); break; }
		if (chk(sqfs_dir_reader_get_inode(rd, st.ent_ref, &ino)) != 0) {
			free(ent);
			/* keep reading entries with the same readers */
			continue;
		}
		if (chk(sqfs_dir_entry_from_inode((const char *)ent->name, ent->size + 1, ino, idtbl, &de)) == 0) {
			strbytes += strlen(de->name);
			free(de);
		}
		if (ino->base.type == SQFS_INODE_SLINK || ino->base.type == SQFS_INODE_EXT_SLINK)
			strbytes += strnlen((const char *)ino->extra, ino->data.slink.target_size);
		plen = strlen(prefix) + 1 + strlen((const char *)ent->name) + 1;
		path = malloc(plen);
		snprintf(path, plen, "%s/%s", prefix, (const char *)ent->name);
		if (npaths < 256 && (rnd() % 4) == 0) paths[npaths++] = strdup(path);
		exercise_xattr(ino);
		is_dir = ino->base.type == SQFS_INODE_DIR || ino->base.type == SQFS_INODE_EXT_DIR;
		if (ino->base.type == SQFS_INODE_FILE || ino->base.type == SQFS_INODE_EXT_FILE)
			exercise_file(ino, path);
		if (is_dir && strcmp((const char *)ent->name, ".") && strcmp((const char *)ent->name, "..")) {
			for (k = 0; k < nseen; ++k)
				if (seen[k] == st.ent_ref) dup = 1;
			if (!dup && nseen < 4096) {
				seen[nseen++] = st.ent_ref;
				walk(rd, ino, path, depth + 1);
			}
		}
		free(path);
		free(ino);
		free(ent);
	}
}

int main(int argc, char **argv)
{
	sqfs_compressor_config_t cfg;
	sqfs_inode_generic_t *root = NULL;
	const char *stopped = "end";
	size_t i;
	int r;

	if (argc < 2) return 2;
	if (argc > 2) rng_state = (unsigned)atoi(argv[2]) * 2654435761u + 1;
	if (chk(sqfs_file_open(&file, argv[1], SQFS_FILE_OPEN_READ_ONLY))) {
		printf("calls=%lu errors=%lu entries=0 stopped=open\n", calls, errors);
		return 3;
	}
	if ((r = chk(sqfs_super_read(&super, file))) != 0) { stopped = "super"; goto out; }
	sqfs_compressor_config_init(&cfg, super.compression_id, super.block_size, SQFS_COMP_FLAG_UNCOMPRESS);
	if ((r = chk(sqfs_compressor_create(&cfg, &cmp))) != 0) { stopped = "compressor"; goto out; }
	idtbl = sqfs_id_table_create(0);
	chk(sqfs_id_table_read(idtbl, file, &super, cmp));
	xr = sqfs_xattr_reader_create(0);
	if (chk(sqfs_xattr_reader_load(xr, &super, file, cmp)) != 0) xr = sqfs_drop(xr);
	data = sqfs_data_reader_create(file, super.block_size, cmp, 0);
	chk(sqfs_data_reader_load_fragment_table(data, &super));
	dr = sqfs_dir_reader_create(&super, cmp, file, 0);
	dr_dot = sqfs_dir_reader_create(&super, cmp, file, SQFS_DIR_READER_DOT_ENTRIES);
	if (!data || !dr || !dr_dot) { stopped = "alloc"; goto out; }

	if (chk(sqfs_dir_reader_get_root_inode(dr, &root)) == 0) {
		walk(dr, root, "", 0);
		/* path resolution: discovered paths, prefixes, junk; each path is an exact-size heap string */
		for (i = 0; i < npaths; ++i) {
			sqfs_u64 ref;
			char *p = paths[i];
			size_t n = strlen(p);
			chk(sqfs_dir_reader_resolve_path(dr, p, NULL, &ref));
			chk(sqfs_dir_reader_resolve_path(dr, p, root, &ref));
			if (n > 1) {
				char *q = malloc(n);        /* prefix: one byte shorter */
				memcpy(q, p, n - 1); q[n - 1] = 0;
				chk(sqfs_dir_reader_resolve_path(dr, q, NULL, &ref));
				free(q);
			}
		}
		{
			sqfs_u64 ref;
			static const char *junk[] = { "", "/", "a", "//a//b", "sub/deep/n000", "f1/x", ".", "..", "xlink/x", "link/x" };
			for (i = 0; i < sizeof(junk) / sizeof(junk[0]); ++i) {
				char *q = strdup(junk[i]);
				chk(sqfs_dir_reader_resolve_path(dr, q, NULL, &ref));
				free(q);
			}
		}
		free(root);
		root = NULL;
	}
	/* second pass with dot entries (dcache, "." / "..") */
	nseen = 0; entries = 0;
	if (chk(sqfs_dir_reader_get_root_inode(dr_dot, &root)) == 0) {
		walk(dr_dot, root, "", MAX_DEPTH - 3);
		free(root);
	}
	/* raw inode references: whatever a directory entry could point at */
	for (i = 0; i < 40; ++i) {
		sqfs_inode_generic_t *ino = NULL;
		sqfs_u64 ref = ((sqfs_u64)(rnd() % 64) << 16) | (rnd() % 9000);
		if (chk(sqfs_dir_reader_get_inode(dr, ref, &ino)) == 0) {
			if (ino->base.type == SQFS_INODE_FILE || ino->base.type == SQFS_INODE_EXT_FILE)
				exercise_file(ino, "raw");
			exercise_xattr(ino);
			free(ino);
		}
	}
out:
	printf("calls=%lu errors=%lu entries=%lu strbytes=%lu stopped=%s\n", calls, errors, entries, strbytes, stopped);
	for (i = 0; i < npaths; ++i) free(paths[i]);
	sqfs_drop(dr); sqfs_drop(dr_dot); sqfs_drop(data); sqfs_drop(xr); sqfs_drop(idtbl); sqfs_drop(cmp); sqfs_drop(file);
	return 0;
}
