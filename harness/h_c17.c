/*
 * C17 harness: the real fstree_sort_files() (bin/gensquashfs/src/sort_by_file.c, linked unchanged) on a file
 * list built with the real fstree code, same line protocol as `sqfsmodel c17`.
 *
 *   sort <nf> <path-hex>*nf <sortfile-hex>
 *       -> init <path-hex>... ; ok <path-hex>:<prio>:<flags>...     (order of fs->files before / after)
 *       -> init <path-hex>... ; err <kind>                          (kind = classified stderr message)
 *   fnmatch <pathglob 0/1> <pattern-hex> <path-hex>  -> 0 | 1       (libc, what sort_by_file.c calls)
 *   cinit <compressor> <block size>                  -> ok            (block compressor configured as sqfs_writer_init does)
 *   cmp <data-hex>                                   -> <out-hex> | - (do_block: "-" = returned 0, keep the input)
 *                                                                      (size oracle for the model's Codec parameter)
 */
#include "config.h"
#include "mkfs.h"
#include "compress_cli.h"
#include "hexio.h"
#include <fnmatch.h>
#include <unistd.h>
#include <fcntl.h>
#include <sys/stat.h>
#include <sys/mman.h>

static const char *classify(const char *msg)
{
	if (strstr(msg, "numeric sort priority")) return "number";
	if (strstr(msg, "Numeric overflow")) return "overflow";
	if (strstr(msg, "after sort priority")) return "filename";
	if (strstr(msg, "Missing `]`")) return "bracket";
	if (strstr(msg, "Malformed flag list")) return "flaglist";
	if (strstr(msg, "after flag list")) return "afterflags";
	if (strstr(msg, "Unknown flag")) return "unknownflag";
	if (strstr(msg, "Unmatched")) return "unmatched";
	if (strstr(msg, "Unknown escape")) return "escape";
	if (strstr(msg, "Malformed filename")) return "canon";
	if (strstr(msg, "out-of-memory") || strstr(msg, "[BUG]")) return "internal";
	return "trailing";	/* `return -1` without a message */
}

static void print_files(fstree_t *fs, int with_attr)
{
	tree_node_t *n;
	for (n = fs->files; n != NULL; n = n->next_by_type) {
		char *path = fstree_get_path(n);
		if (path == NULL || canonicalize_name(path)) { fputs(" ?", stdout); free(path); continue; }
		putchar(' ');
		hex_print(stdout, (unsigned char *)path, strlen(path));
		if (with_attr)
			printf(":%lld:%d", (long long)n->data.file.priority, n->data.file.flags);
		free(path);
	}
}

static char line[1 << 23];
static sqfs_compressor_t *cmp;
static size_t cmp_bs;

int main(void)
{
	int errfd = memfd_create("verif_c17_err", 0), saved = dup(2);
	if (errfd < 0 || saved < 0) return 2;

	while (fgets(line, sizeof(line), stdin)) {
		char *save = NULL, *op = strtok_r(line, " \n", &save);
		if (!op) { puts("bad-op"); continue; }
		if (strcmp(op, "fnmatch") == 0) {
			char *a = strtok_r(NULL, " \n", &save), *b = strtok_r(NULL, " \n", &save), *c = strtok_r(NULL, " \n", &save);
			unsigned char *pat, *path;
			if (!a || !b || !c || hex_decode_tok(b, &pat, 1) < 0 || hex_decode_tok(c, &path, 1) < 0) { puts("bad-op"); continue; }
			puts(fnmatch((char *)pat, (char *)path, atoi(a) ? FNM_PATHNAME : 0) == 0 ? "1" : "0");
			free(pat); free(path);
			continue;
		}
		if (strcmp(op, "cinit") == 0) {
			char *a = strtok_r(NULL, " \n", &save), *b = strtok_r(NULL, " \n", &save);
			sqfs_compressor_config_t cfg;
			int id = a ? sqfs_compressor_id_from_name(a) : -1;
			if (id < 0 || !b) { puts("bad-op"); continue; }
			if (cmp != NULL) { sqfs_drop(cmp); cmp = NULL; }
			cmp_bs = (size_t)atol(b);
			if (compressor_cfg_init_options(&cfg, id, cmp_bs, NULL) || sqfs_compressor_create(&cfg, &cmp)) { puts("err"); cmp = NULL; continue; }
			puts("ok");
			continue;
		}
		if (strcmp(op, "cmp") == 0) {
			char *a = strtok_r(NULL, " \n", &save);
			unsigned char *in, *out;
			long n;
			sqfs_s32 r;
			if (!a || cmp == NULL || (n = hex_decode_tok(a, &in, 0)) < 0) { puts("bad-op"); continue; }
			out = malloc(cmp_bs + 1);
			r = (n == 0 || (size_t)n > cmp_bs) ? -1 : cmp->do_block(cmp, in, (sqfs_u32)n, out, (sqfs_u32)cmp_bs);
			if (r < 0) puts("err");
			else if (r == 0) puts("-");
			else { hex_print(stdout, out, (size_t)r); putchar('\n'); }
			free(in); free(out);
			continue;
		}
		if (strcmp(op, "sort") == 0) {
			char *t = strtok_r(NULL, " \n", &save);
			long nf = t ? atol(t) : -1, i;
			fstree_defaults_t fsd;
			sqfs_istream_t *ms;
			unsigned char *sf = NULL;
			fstree_t fs;
			long sflen;
			int bad = 0, ret;
			if (nf < 0) { puts("bad-op"); continue; }
			if (parse_fstree_defaults(&fsd, NULL) || fstree_init(&fs, &fsd)) { puts("bad-op"); continue; }
			for (i = 0; i < nf; ++i) {
				unsigned char *p;
				sqfs_dir_entry_t *ent;
				t = strtok_r(NULL, " \n", &save);
				if (!t || hex_decode_tok(t, &p, 1) < 0) { bad = 1; break; }
				ent = sqfs_dir_entry_create((char *)p, S_IFREG | 0644, 0);
				if (ent == NULL || fstree_add_generic(&fs, ent, NULL) == NULL) bad = 1;
				free(ent); free(p);
				if (bad) break;
			}
			t = strtok_r(NULL, " \n", &save);
			if (bad || !t || (sflen = hex_decode_tok(t, &sf, 1)) < 0 || fstree_post_process(&fs)) {
				puts("bad-op"); fstree_cleanup(&fs); free(sf); continue;
			}
			fputs("init", stdout);
			print_files(&fs, 0);
			fputs(" ; ", stdout);
			fflush(stdout);
			ms = istream_memory_create("sortfile", 61, (char *)sf, (size_t)sflen);
			if (ftruncate(errfd, 0) || lseek(errfd, 0, SEEK_SET) < 0) return 2;
			fflush(stderr);
			dup2(errfd, 2);
			ret = fstree_sort_files(&fs, ms);
			fflush(stderr);
			dup2(saved, 2);
			sqfs_drop(ms);
			if (ret == 0) {
				fputs("ok", stdout);
				print_files(&fs, 1);
				putchar('\n');
			} else {
				static char msg[1 << 16];
				ssize_t n = pread(errfd, msg, sizeof(msg) - 1, 0);
				char *last;
				msg[n < 0 ? 0 : n] = '\0';
				/* the error is the last line that is not a "WARNING: ... no match" line */
				last = msg;
				for (char *p = msg; *p; ) {
					char *e = strchr(p, '\n');
					if (strncmp(p, "WARNING:", 8) != 0) last = p;
					if (!e) break;
					p = e + 1;
				}
				if (strncmp(last, "WARNING:", 8) == 0) last = "";
				printf("err %s\n", classify(last));
			}
			fstree_cleanup(&fs);
			free(sf);
			continue;
		}
		puts("bad-op");
	}
	return 0;
}
