/*
 * C17 harness: the real fstree_sort_files() (bin/gensquashfs/src/sort_by_file.c, linked unchanged) on a file
 * list built with the real fstree code, same line protocol as `sqfsmodel c17`.
 *
 *   sort <nf> <path-hex>*nf <sortfile-hex>
 *       -> init <path-hex>... ; ok <path-hex>:<prio>:<flags>... ; frame <ok|changed>   (order of fs->files before / after)
 *       -> init <path-hex>... ; err <kind> ; frame <ok|changed>     (kind = classified stderr message)
 *       frame: a dump of every field of every tree node (but data.file.priority / data.file.flags /
 *       FLAG_FILE_ALREADY_MATCHED / next_by_type), of fs->inodes, fs->root, fs->defaults, fs->unique_inode_count and
 *       of the *set* of nodes on fs->files is taken before and after fstree_sort_files(); "changed" = they differ
 *   sortx <n> <t>:<path-hex>[:<extra-hex>]*n <sortfile-hex>          same, for a tree with other node types:
 *       t = f regular file, d directory, l symlink (extra = target), h hard link (extra = target path),
 *       c character device, b block device, p fifo, s socket
 *   exptbl <off> <n> (<inum> <iref>)*n   -> ok <export_table_start> <hex of the bytes appended> | err <kind>
 *       a real sqfs_dir_writer_t created with SQFS_DIR_WRITER_CREATE_EXPORT_TABLE: sqfs_dir_writer_add_entry() for the
 *       first n-1 pairs, then sqfs_dir_writer_write_export_table() with the last pair as root, into a memory file
 *       that already holds <off> bytes; compressor = the one configured by cinit (none: blocks stored raw)
 *   fnmatch <pathglob 0/1> <pattern-hex> <path-hex>  -> 0 | 1       libc's fnmatch with the flag word the man page *documents*
 *       (FNM_PATHNAME for `glob`, 0 for `glob_no_path`, nothing else): the specification side.  What sort_by_file.c really
 *       passes to fnmatch is observed through `sort` (one-line sort files `1 [glob] "pattern"`, priority 1 = selected; part A2
 *       of tools/checks/c17.py) and compared with this op, a hand-written table and a reference matcher
 *   cinit <compressor|raw> <block size>              -> ok            (block compressor configured as sqfs_writer_init does; raw = none)
 *   cmp <data-hex>                                   -> <out-hex> | - (do_block: "-" = returned 0, keep the input)
 *                                                                      (size oracle for the model's Codec parameter)
 */
#include "config.h"
#include "mkfs.h"
#include "compress_cli.h"
#include "hexio.h"
#include "sqfs/dir_writer.h"
#include "sqfs/meta_writer.h"
#include "sqfs/super.h"
#include "sqfs/error.h"
#include "sqfs/io.h"
#include <fnmatch.h>
#include <unistd.h>
#include <fcntl.h>
#include <sys/stat.h>
#include <sys/mman.h>
#include <stdarg.h>

static const char *classify(const char *msg)
{
	if (strstr(msg, "numeric sort priority")) return "number";
	if (strstr(msg, "Numeric overflow")) return "overflow";
	if (strstr(msg, "after sort priority")) return "filename";
	if (strstr(msg, "Missing `]`")) return "bracket";
	if (strstr(msg, "Malformed flag list")) return "flaglist";
	if (strstr(msg, "after flag list")) return "afterflags";
	if (strstr(msg, "Unknown flag")) return "unknownflag";
	if (strstr(msg, "Unmatched")) return "unmatched";
	if (strstr(msg, "Unknown escape")) return "escape";
	if (strstr(msg, "Malformed filename")) return "canon";
	if (strstr(msg, "after quoted filename")) return "trailing";
	if (strstr(msg, "out-of-memory") || strstr(msg, "[BUG]")) return "internal";
	if (msg[0] == '\0') return "silent";	/* `return -1` without a diagnostic: no path of the current code does that */
	return "unknown-message";
}

/* ------------------------------------------------------------------ memory file + raw compressor (exptbl) */
static unsigned char *mf_data;
static size_t mf_used, mf_cap;

static int mf_write_at(sqfs_file_t *f, sqfs_u64 off, const void *buf, size_t size)
{
	(void)f;
	if (off + size > mf_cap) {
		mf_cap = (off + size) * 2 + 4096;
		mf_data = realloc(mf_data, mf_cap);
		if (!mf_data) abort();
	}
	if (off > mf_used) memset(mf_data + mf_used, 0, off - mf_used);
	memcpy(mf_data + off, buf, size);
	if (off + size > mf_used) mf_used = off + size;
	return 0;
}
static sqfs_u64 mf_get_size(const sqfs_file_t *f) { (void)f; return mf_used; }
static sqfs_file_t memfile = { { 1, NULL, NULL }, NULL, mf_write_at, mf_get_size, NULL, NULL };

static sqfs_s32 raw_block(sqfs_compressor_t *c, const sqfs_u8 *in, sqfs_u32 size, sqfs_u8 *out, sqfs_u32 outsize)
{ (void)c; (void)in; (void)size; (void)out; (void)outsize; return 0; }
static sqfs_compressor_t raw_cmp = { { 1, NULL, NULL }, NULL, NULL, NULL, raw_block };

/* ------------------------------------------------------------------ frame dump */
static char *dump_buf;
static size_t dump_len, dump_cap;

static void dput(const char *fmt, ...)
{
	va_list ap;
	int n;
	if (dump_cap - dump_len < 8192) {
		dump_cap = dump_cap * 2 + 16384;
		dump_buf = realloc(dump_buf, dump_cap);
		if (!dump_buf) abort();
	}
	va_start(ap, fmt);
	n = vsnprintf(dump_buf + dump_len, dump_cap - dump_len, fmt, ap);
	va_end(ap);
	if (n > 0) dump_len += (size_t)n < dump_cap - dump_len ? (size_t)n : dump_cap - dump_len - 1;
}

static void dump_node(tree_node_t *n)
{
	dput("{%p parent=%p next=%p name=%.4000s xattr=%u uid=%u gid=%u ino=%u mtime=%u links=%u mode=%o flags=%x ref=%llx",
	     (void *)n, (void *)n->parent, (void *)n->next, n->name, n->xattr_idx, n->uid, n->gid, n->inode_num, n->mod_time,
	     n->link_count, n->mode, n->flags & ~FLAG_FILE_ALREADY_MATCHED, (unsigned long long)n->inode_ref);
	if (S_ISDIR(n->mode)) {
		tree_node_t *c;
		dput(" children=%p", (void *)n->data.children);
		for (c = n->data.children; c != NULL; c = c->next) dump_node(c);
	} else if (S_ISREG(n->mode)) {
		dput(" input=%p:%.4000s inode=%p", (void *)n->data.file.input_file,
		     n->data.file.input_file ? n->data.file.input_file : "-", (void *)n->data.file.inode);
	} else if (S_ISLNK(n->mode)) {
		if (n->flags & FLAG_LINK_RESOVED) dput(" target_node=%p", (void *)n->data.target_node);
		else dput(" target=%p:%.4000s", (void *)n->data.target, n->data.target);
	} else if (S_ISBLK(n->mode) || S_ISCHR(n->mode)) {
		dput(" devno=%llx", (unsigned long long)n->data.devno);
	}
	dput("}");
}

static int cmp_ptr(const void *a, const void *b)
{
	const void *x = *(void *const *)a, *y = *(void *const *)b;
	return x < y ? -1 : x > y;
}

/* everything fstree_sort_files() must leave alone */
static char *dump_tree(fstree_t *fs)
{
	tree_node_t *n, **set;
	size_t i, cnt = 0;
	dump_len = 0;
	dput("defaults=%u,%u,%u,%o count=%zu root=%p unresolved=%p inodes=%p:", fs->defaults.uid, fs->defaults.gid,
	     fs->defaults.mtime, fs->defaults.mode, fs->unique_inode_count, (void *)fs->root, (void *)fs->links_unresolved,
	     (void *)fs->inodes);
	for (i = 0; i < fs->unique_inode_count; ++i) dput(" %p", (void *)fs->inodes[i]);
	for (n = fs->files; n != NULL; n = n->next_by_type) ++cnt;
	set = calloc(cnt + 1, sizeof(*set));
	for (i = 0, n = fs->files; n != NULL; n = n->next_by_type) set[i++] = n;
	qsort(set, cnt, sizeof(*set), cmp_ptr);
	dput(" files(%zu)=", cnt);
	for (i = 0; i < cnt; ++i) dput(" %p", (void *)set[i]);
	free(set);
	dput(" tree=");
	dump_node(fs->root);
	return strdup(dump_buf ? dump_buf : "");
}

static void print_files(fstree_t *fs, int with_attr)
{
	tree_node_t *n;
	for (n = fs->files; n != NULL; n = n->next_by_type) {
		char *path = fstree_get_path(n);
		if (path == NULL || canonicalize_name(path)) { fputs(" ?", stdout); free(path); continue; }
		putchar(' ');
		hex_print(stdout, (unsigned char *)path, strlen(path));
		if (with_attr)
			printf(":%lld:%d", (long long)n->data.file.priority, n->data.file.flags);
		free(path);
	}
}

static char line[1 << 23];
static sqfs_compressor_t *cmp;
static size_t cmp_bs;

int main(void)
{
	int errfd = memfd_create("verif_c17_err", 0), saved = dup(2);
	if (errfd < 0 || saved < 0) return 2;
	setvbuf(stdout, NULL, _IOLBF, 0);	/* after a sanitizer abort the number of answers names the line that crashed */

	while (fgets(line, sizeof(line), stdin)) {
		char *save = NULL, *op = strtok_r(line, " \n", &save);
		if (!op) { puts("bad-op"); continue; }
		if (strcmp(op, "fnmatch") == 0) {
			char *a = strtok_r(NULL, " \n", &save), *b = strtok_r(NULL, " \n", &save), *c = strtok_r(NULL, " \n", &save);
			unsigned char *pat, *path;
			if (!a || !b || !c || hex_decode_tok(b, &pat, 1) < 0 || hex_decode_tok(c, &path, 1) < 0) { puts("bad-op"); continue; }
			puts(fnmatch((char *)pat, (char *)path, atoi(a) ? FNM_PATHNAME : 0) == 0 ? "1" : "0");
			free(pat); free(path);
			continue;
		}
		if (strcmp(op, "cinit") == 0) {
			char *a = strtok_r(NULL, " \n", &save), *b = strtok_r(NULL, " \n", &save);
			sqfs_compressor_config_t cfg;
			int id = a ? sqfs_compressor_id_from_name(a) : -1;
			if (a && b && strcmp(a, "raw") == 0) {		/* no compressor: exptbl stores its blocks raw */
				if (cmp != NULL) { sqfs_drop(cmp); cmp = NULL; }
				cmp_bs = (size_t)atol(b);
				puts("ok");
				continue;
			}
			if (id < 0 || !b) { puts("bad-op"); continue; }
			if (cmp != NULL) { sqfs_drop(cmp); cmp = NULL; }
			cmp_bs = (size_t)atol(b);
			if (compressor_cfg_init_options(&cfg, id, cmp_bs, NULL) || sqfs_compressor_create(&cfg, &cmp)) { puts("err"); cmp = NULL; continue; }
			puts("ok");
			continue;
		}
		if (strcmp(op, "cmp") == 0) {
			char *a = strtok_r(NULL, " \n", &save);
			unsigned char *in, *out;
			long n;
			sqfs_s32 r;
			if (!a || cmp == NULL || (n = hex_decode_tok(a, &in, 0)) < 0) { puts("bad-op"); continue; }
			out = malloc(cmp_bs + 1);
			r = (n == 0 || (size_t)n > cmp_bs) ? -1 : cmp->do_block(cmp, in, (sqfs_u32)n, out, (sqfs_u32)cmp_bs);
			if (r < 0) puts("err");
			else if (r == 0) puts("-");
			else { hex_print(stdout, out, (size_t)r); putchar('\n'); }
			free(in); free(out);
			continue;
		}
		if (strcmp(op, "exptbl") == 0) {
			char *a = strtok_r(NULL, " \n", &save), *b = strtok_r(NULL, " \n", &save);
			size_t off = a ? strtoull(a, NULL, 10) : 0;
			long n = b ? atol(b) : 0, i;
			sqfs_compressor_t *c = cmp != NULL ? cmp : &raw_cmp;
			sqfs_meta_writer_t *dm;
			sqfs_dir_writer_t *dw;
			sqfs_super_t super;
			int rc = 0, bad = 0;
			if (!a || !b || n < 1) { puts("bad-op"); continue; }
			mf_used = 0;
			if (off > 0) { unsigned char z = 0; mf_write_at(&memfile, off - 1, &z, 1); }
			memset(&super, 0, sizeof(super));
			dm = sqfs_meta_writer_create(&memfile, c, SQFS_META_WRITER_KEEP_IN_MEMORY);
			dw = dm ? sqfs_dir_writer_create(dm, SQFS_DIR_WRITER_CREATE_EXPORT_TABLE) : NULL;
			if (dw == NULL || sqfs_dir_writer_begin(dw, 0)) { puts("bad-op"); if (dw) sqfs_drop(dw); if (dm) sqfs_drop(dm); continue; }
			for (i = 0; i < n; ++i) {
				char *x = strtok_r(NULL, " \n", &save), *y = strtok_r(NULL, " \n", &save);
				if (!x || !y) { bad = 1; break; }
				if (i + 1 < n)
					rc = sqfs_dir_writer_add_entry(dw, "e", (sqfs_u32)strtoull(x, NULL, 10), strtoull(y, NULL, 10), S_IFREG | 0644);
				else
					rc = sqfs_dir_writer_write_export_table(dw, &memfile, c, (sqfs_u32)strtoull(x, NULL, 10),
										strtoull(y, NULL, 10), &super);
				if (rc) break;
			}
			if (bad) puts("bad-op");
			else if (rc == SQFS_ERROR_ARG_INVALID) puts("err arg-invalid");
			else if (rc) printf("err code%d\n", rc);
			else if (!(super.flags & SQFS_FLAG_EXPORTABLE)) puts("err not-flagged-exportable");
			else {
				printf("ok %llu ", (unsigned long long)super.export_table_start);
				hex_print(stdout, mf_data + off, mf_used - off);
				putchar('\n');
			}
			sqfs_drop(dw);
			sqfs_drop(dm);
			continue;
		}
		if (strcmp(op, "sort") == 0 || strcmp(op, "sortx") == 0) {
			int typed = op[4] == 'x';
			char *before, *after;
			char *t = strtok_r(NULL, " \n", &save);
			long nf = t ? atol(t) : -1, i;
			fstree_defaults_t fsd;
			sqfs_istream_t *ms;
			unsigned char *sf = NULL;
			fstree_t fs;
			long sflen;
			int bad = 0, ret;
			if (nf < 0) { puts("bad-op"); continue; }
			if (parse_fstree_defaults(&fsd, NULL) || fstree_init(&fs, &fsd)) { puts("bad-op"); continue; }
			for (i = 0; i < nf; ++i) {
				unsigned char *p, *extra = NULL;
				sqfs_dir_entry_t *ent;
				sqfs_u16 mode = S_IFREG | 0644;
				sqfs_u32 eflags = 0;
				char kind = 'f';
				t = strtok_r(NULL, " \n", &save);
				if (t && typed) {
					char *x;
					if (t[0] == '\0' || t[1] != ':') { bad = 1; break; }
					kind = t[0];
					t += 2;
					x = strchr(t, ':');
					if (x) { *x = '\0'; if (hex_decode_tok(x + 1, &extra, 1) < 0) { bad = 1; break; } }
				}
				if (!t || hex_decode_tok(t, &p, 1) < 0) { bad = 1; free(extra); break; }
				switch (kind) {
				case 'f': break;
				case 'd': mode = S_IFDIR | 0750; break;
				case 'l': mode = S_IFLNK | 0777; break;
				case 'h': mode = S_IFLNK | 0777; eflags = SQFS_DIR_ENTRY_FLAG_HARD_LINK; break;
				case 'c': mode = S_IFCHR | 0600; break;
				case 'b': mode = S_IFBLK | 0600; break;
				case 'p': mode = S_IFIFO | 0600; break;
				case 's': mode = S_IFSOCK | 0600; break;
				default: bad = 1;
				}
				if ((kind == 'l' || kind == 'h') && extra == NULL) bad = 1;
				ent = bad ? NULL : sqfs_dir_entry_create((char *)p, mode, eflags);
				if (ent != NULL) {
					ent->uid = 1000 + (sqfs_u32)i; ent->gid = 7 * (sqfs_u32)i; ent->mtime = 1000000 + i;
					ent->rdev = (kind == 'c' || kind == 'b') ? 0x0105 + (sqfs_u32)i : 0;
				}
				if (ent == NULL || fstree_add_generic(&fs, ent, (char *)extra) == NULL) bad = 1;
				free(ent); free(p); free(extra);
				if (bad) break;
			}
			t = strtok_r(NULL, " \n", &save);
			if (bad || !t || (sflen = hex_decode_tok(t, &sf, 1)) < 0 || fstree_post_process(&fs)) {
				puts("bad-op"); fstree_cleanup(&fs); free(sf); continue;
			}
			fputs("init", stdout);
			print_files(&fs, 0);
			fputs(" ; ", stdout);
			fflush(stdout);
			ms = istream_memory_create("sortfile", 61, (char *)sf, (size_t)sflen);
			if (ftruncate(errfd, 0) || lseek(errfd, 0, SEEK_SET) < 0) return 2;
			before = dump_tree(&fs);
			fflush(stderr);
			dup2(errfd, 2);
			ret = fstree_sort_files(&fs, ms);
			fflush(stderr);
			dup2(saved, 2);
			sqfs_drop(ms);
			after = dump_tree(&fs);
			if (ret == 0) {
				fputs("ok", stdout);
				print_files(&fs, 1);
			} else {
				static char msg[1 << 16];
				ssize_t n = pread(errfd, msg, sizeof(msg) - 1, 0);
				char *last;
				msg[n < 0 ? 0 : n] = '\0';
				/* the error is the last line that is not a "WARNING: ... no match" line */
				last = msg;
				for (char *p = msg; *p; ) {
					char *e = strchr(p, '\n');
					if (strncmp(p, "WARNING:", 8) != 0) last = p;
					if (!e) break;
					p = e + 1;
				}
				if (strncmp(last, "WARNING:", 8) == 0) last = "";
				printf("err %s", classify(last));
			}
			printf(" ; frame %s\n", strcmp(before, after) == 0 ? "ok" : "changed");
			free(before); free(after);
			fstree_cleanup(&fs);
			free(sf);
			continue;
		}
		puts("bad-op");
	}
	return 0;
}
