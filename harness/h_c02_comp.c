/*
 * C02 harness, compressor level: is `do_block` of the REAL compressors (lib/sqfs/src/comp/{gzip,xz,lzma,lz4,zstd}.c of the
 * working tree) a pure function of the block?  The theorems of Sqfs/Props/C02.lean take the worker function as a
 * function of the block alone (`Params.codec`); the block processor gives every worker thread its own `sqfs_copy` of the
 * configured compressor (block_processor.c: sqfs_block_processor_create_ex), and which worker compresses which block is
 * decided by the OS.  So any state a compressor object carries from one `do_block` call into the next makes the image
 * depend on the schedule.  This program feeds one block sequence to k worker copies under a given assignment and prints,
 * per block, the result of
 *     h  the assigned worker copy (with everything that copy compressed before: its history),
 *     f  a compressor freshly created from the same configuration that has compressed nothing else,
 *     c  a fresh `sqfs_copy` of the configured compressor, taken after the worker copies have done all their work (the
 *        original must not share state with its copies) and that has compressed nothing else,
 * and whether the uncompressor restores the block from h (`CodecOk.roundTrip`, `CodecOk.smaller` of the theorems).
 *
 *   hi <gzip|xz|lzma|lz4|zstd> <level> <flags-hex> <a> <b> <c> <d> <block_size> <k> <n> (<worker 0..k-1> <data-hex>)×n
 *        gzip: a = window;  xz, lzma: a = dict_size, b = lc, c = lp, d = pb;  others: 0 0 0 0
 *   → ok <n> (<ret>:<fnv64 of the output> ×3 in the order h f c, then <rt 0|1>, joined by '/')×n
 *   | err create <code> | err copy | bad-op
 *
 * `ret` is do_block's return value (negative = error, 0 = "not smaller", > 0 = compressed size); the scratch buffer has
 * block_size bytes as in process_block.
 */
#include "config.h"
#include "hexio.h"

#include "sqfs/compressor.h"
#include "sqfs/error.h"
#include "sqfs/super.h"
#include "sqfs/predef.h"

#include <inttypes.h>

static uint64_t fnv(const void *p, size_t n)
{
	const unsigned char *b = p;
	uint64_t h = 14695981039346656037ULL;
	size_t i;
	for (i = 0; i < n; ++i) h = (h ^ b[i]) * 1099511628211ULL;
	return h;
}

static char line[1 << 26];
#define MAXW 64

static int comp_id(const char *s)
{
	if (!strcmp(s, "gzip")) return SQFS_COMP_GZIP;
	if (!strcmp(s, "xz")) return SQFS_COMP_XZ;
	if (!strcmp(s, "lzma")) return SQFS_COMP_LZMA;
	if (!strcmp(s, "lz4")) return SQFS_COMP_LZ4;
	if (!strcmp(s, "zstd")) return SQFS_COMP_ZSTD;
	if (!strcmp(s, "lzo")) return SQFS_COMP_LZO;
	return -1;
}

static void one(sqfs_compressor_t *c, const unsigned char *in, size_t n, unsigned char *scratch, size_t cap,
		sqfs_s32 *ret, uint64_t *h)
{
	memset(scratch, 0xA5, cap);
	*ret = c->do_block(c, in, (sqfs_u32)n, scratch, (sqfs_u32)cap);
	*h = *ret > 0 ? fnv(scratch, (size_t)*ret) : 0;
}

static void run_line(void)
{
	char *save = NULL, *tok[11];
	sqfs_compressor_config_t cfg, ucfg;
	sqfs_compressor_t *orig = NULL, *unc = NULL, *w[MAXW];
	unsigned char *scratch = NULL, *back = NULL;
	size_t bs, cap;
	int i, k, n, id, rc;

	for (i = 0; i < 11; ++i) {
		tok[i] = strtok_r(i == 0 ? line : NULL, " \n", &save);
		if (tok[i] == NULL) { puts("bad-op"); return; }
	}
	if (strcmp(tok[0], "hi") != 0 || (id = comp_id(tok[1])) < 0) { puts("bad-op"); return; }
	memset(&cfg, 0, sizeof(cfg));
	cfg.id = (sqfs_u16)id;
	cfg.level = (sqfs_u32)strtoul(tok[2], NULL, 10);
	cfg.flags = (sqfs_u16)strtoul(tok[3], NULL, 16);
	bs = strtoul(tok[8], NULL, 10);
	cfg.block_size = (sqfs_u32)bs;
	if (id == SQFS_COMP_GZIP) {
		cfg.opt.gzip.window_size = (sqfs_u16)strtoul(tok[4], NULL, 10);
	} else if (id == SQFS_COMP_XZ || id == SQFS_COMP_LZMA) {
		cfg.opt.xz.dict_size = (sqfs_u32)strtoul(tok[4], NULL, 10);
		cfg.opt.xz.lc = (sqfs_u8)strtoul(tok[5], NULL, 10);
		cfg.opt.xz.lp = (sqfs_u8)strtoul(tok[6], NULL, 10);
		cfg.opt.xz.pb = (sqfs_u8)strtoul(tok[7], NULL, 10);
	}
	k = atoi(tok[9]);
	n = atoi(tok[10]);
	if (k < 1 || k > MAXW || n < 0 || bs == 0 || bs > (1u << 22)) { puts("bad-op"); return; }
	cap = bs;

	rc = sqfs_compressor_create(&cfg, &orig);
	if (rc != 0 || orig == NULL) { printf("err create %d\n", rc); return; }
	ucfg = cfg;
	ucfg.flags |= SQFS_COMP_FLAG_UNCOMPRESS;
	rc = sqfs_compressor_create(&ucfg, &unc);
	if (rc != 0 || unc == NULL) { printf("err create %d\n", rc); sqfs_drop(orig); return; }
	for (i = 0; i < k; ++i) {
		w[i] = sqfs_copy(orig);
		if (w[i] == NULL) {
			puts("err copy");
			while (i-- > 0) sqfs_drop(w[i]);
			sqfs_drop(orig); sqfs_drop(unc);
			return;
		}
	}
	scratch = malloc(cap + 1);
	back = malloc(bs + 1);
	if (!scratch || !back) abort();

	{
		unsigned char **blk = calloc((size_t)n + 1, sizeof(*blk));
		long *len = calloc((size_t)n + 1, sizeof(*len));
		int *wi = calloc((size_t)n + 1, sizeof(*wi));
		sqfs_s32 (*r)[3] = calloc((size_t)n + 1, sizeof(*r));
		uint64_t (*h)[3] = calloc((size_t)n + 1, sizeof(*h));
		int *rt = calloc((size_t)n + 1, sizeof(*rt));
		int bad = 0;
		if (!blk || !len || !wi || !r || !h || !rt) abort();
		for (i = 0; i < n; ++i) {
			char *a = strtok_r(NULL, " \n", &save), *b = strtok_r(NULL, " \n", &save);
			if (!a || !b || (len[i] = hex_decode_tok(b, &blk[i], 1)) < 0 || (size_t)len[i] > bs) { bad = 1; n = i; break; }
			wi[i] = atoi(a);
			if (wi[i] < 0 || wi[i] >= k) wi[i] = 0;
		}
		if (bad || strtok_r(NULL, " \n", &save) != NULL) {
			puts("bad-op");
		} else {
			/* h: every block on its assigned worker copy, in submission order (a worker takes its items in ticket order) */
			for (i = 0; i < n; ++i) {
				rt[i] = 1;
				one(w[wi[i]], blk[i], (size_t)len[i], scratch, cap, &r[i][0], &h[i][0]);
				if (r[i][0] > 0) {
					/* the contract of the theorems: shorter, and the uncompressor restores the block */
					sqfs_s32 u;
					if ((size_t)r[i][0] >= (size_t)len[i]) rt[i] = 0;
					u = unc->do_block(unc, scratch, (sqfs_u32)r[i][0], back, (sqfs_u32)bs);
					if (u != (sqfs_s32)len[i] || memcmp(back, blk[i], (size_t)len[i]) != 0) rt[i] = 0;
				}
			}
			for (i = 0; i < n; ++i) {
				sqfs_compressor_t *fresh = NULL, *fcopy = NULL;
				r[i][1] = r[i][2] = -9999;
				/* f: a compressor created afresh from the configuration */
				if (sqfs_compressor_create(&cfg, &fresh) == 0 && fresh != NULL) {
					one(fresh, blk[i], (size_t)len[i], scratch, cap, &r[i][1], &h[i][1]);
					sqfs_drop(fresh);
				}
				/* c: a fresh copy of the configured compressor */
				fcopy = sqfs_copy(orig);
				if (fcopy != NULL) {
					one(fcopy, blk[i], (size_t)len[i], scratch, cap, &r[i][2], &h[i][2]);
					sqfs_drop(fcopy);
				}
			}
			printf("ok %d", n);
			for (i = 0; i < n; ++i)
				printf(" %d:%016" PRIx64 "/%d:%016" PRIx64 "/%d:%016" PRIx64 "/%d", (int)r[i][0], h[i][0], (int)r[i][1], h[i][1],
				       (int)r[i][2], h[i][2], rt[i]);
			putchar('\n');
		}
		for (i = 0; i < n; ++i) free(blk[i]);
		free(blk); free(len); free(wi); free(r); free(h); free(rt);
	}
	for (i = 0; i < k; ++i) sqfs_drop(w[i]);
	sqfs_drop(orig);
	sqfs_drop(unc);
	free(scratch);
	free(back);
}

int main(void)
{
	while (fgets(line, sizeof(line), stdin)) {
		run_line();
		fflush(stdout);
	}
	return 0;
}
