/*
 * C18 funnel probe shim (linked into a second copy of gensquashfs only): records the exact path string that
 * bin/gensquashfs/src/apply_xattr.c get_full_path() hands to llistxattr(), i.e. "<packdir>/<canonical node path>",
 * and reports "no extended attributes".  Defining the symbol in the executable takes precedence over libc's.
 */
#include <stdio.h>
#include <sys/types.h>

ssize_t llistxattr(const char *path, char *list, size_t size)
{
	(void)list; (void)size;
	fprintf(stderr, "C18-LLISTXATTR %s\n", path);
	return 0;
}
