/*
 * C02, tool level: linked into gensquashfs / tar2sqfs built from the working tree with -Wl,--wrap=thread_pool_create.
 * Wraps the worker callback of the real pool (threadpool.c or threadpool_serial.c):
 *   - scheduling perturbation: before and after the real callback a seeded pseudo-random delay
 *     (sched_yield / usleep of 0..C02_PERTURB_US microseconds, derived from C02_PERTURB_SEED and the item's ticket),
 *     so that completion orders really vary between runs with different seeds;
 *   - trace: the order in which callbacks complete (by submission ticket), written at exit to C02_TRACE_FILE as
 *       submitted=<n> overtakes=<items that completed before an earlier submitted one> order=<fnv of the order>
 *       workers=<pool->get_worker_count> fifo=<dequeue order = submit order>
 *   - C02_PERTURB_MODE (with C02_PERTURB_SEED): which worker gets which block is what per-worker compressor state would
 *     leak through, so two modes bias the *assignment* instead of the completion order:
 *       1  the first callback invocation of the run is delayed by C02_PERTURB_FIRST_MS (default 40) milliseconds: the
 *          worker that picked up the first block is stuck, the other workers compress everything that follows;
 *       2  round robin: a worker that has finished an item waits (at most ~2 ms) until another thread has started one,
 *          so consecutive blocks are compressed by different workers;
 *     the trace gains handoffs=<number of consecutive tickets that were started by different threads>, perturb=<the seed was
 *     seen>, mode=, delays=<number of delays / waits actually applied>, started=<callbacks run> (the check treats a missing
 *     trace or a perturbation that never fired as an infrastructure failure).
 * Without C02_PERTURB_SEED the callback is only traced.
 */
#include "config.h"
#include "util/threadpool.h"
#include <pthread.h>
#include <sched.h>
#include <stdint.h>
#include <stdio.h>
#include <stdlib.h>
#include <unistd.h>

#define MAXI (1 << 20)
static thread_pool_worker_t real_worker;
static int (*real_submit)(thread_pool_t *, void *);
static void *(*real_dequeue)(thread_pool_t *);
static pthread_mutex_t mtx = PTHREAD_MUTEX_INITIALIZER;
static void **sub_ptr;
static unsigned char *done_flag;
static size_t n_sub, n_deq, lo_live, n_overtake;
static uint64_t ord_hash = 14695981039346656037ULL;
static int fifo_ok = 1, perturb, max_us, mode, first_ms = 40, first_done;
static size_t n_started, n_handoff, n_delays;
static pthread_t last_starter;
static int have_starter;
static uint64_t seed;
static size_t nworkers;

static uint64_t mix(uint64_t x)
{
	x ^= x >> 33; x *= 0xff51afd7ed558ccdULL; x ^= x >> 33; x *= 0xc4ceb9fe1a85ec53ULL; x ^= x >> 33;
	return x;
}

static size_t ticket_of(void *item)
{
	size_t i;
	for (i = n_sub; i > lo_live; --i)
		if (sub_ptr[i - 1] == item)
			return i - 1;
	return (size_t)-1;
}

static void delay(uint64_t r)
{
	unsigned k = (unsigned)(r % 8);
	if (k < 3) return;
	__sync_fetch_and_add(&n_delays, 1);
	if (k < 5) { sched_yield(); return; }
	usleep((useconds_t)((r >> 8) % (uint64_t)(max_us + 1)));
}

static int traced_worker(void *user, void *item)
{
	size_t t, i;
	int r;
	size_t my_start;
	int was_first;
	pthread_mutex_lock(&mtx);
	t = ticket_of(item);
	if (have_starter && !pthread_equal(last_starter, pthread_self())) ++n_handoff;
	last_starter = pthread_self();
	have_starter = 1;
	my_start = ++n_started;
	was_first = !first_done;
	first_done = 1;
	pthread_mutex_unlock(&mtx);
	if (perturb && mode == 1) {
		if (was_first) { usleep((useconds_t)first_ms * 1000); __sync_fetch_and_add(&n_delays, 1); }
	} else if (perturb) {
		delay(mix(seed ^ (uint64_t)(t + 1) * 0x9e3779b97f4a7c15ULL));
	}
	r = real_worker(user, item);
	if (perturb && mode == 2 && nworkers > 1) {
		/* let somebody else take the next item */
		int spins;
		for (spins = 0; spins < 40; ++spins) {
			size_t cur;
			pthread_mutex_lock(&mtx);
			cur = n_started;
			pthread_mutex_unlock(&mtx);
			if (cur != my_start) break;
			if (spins == 0) __sync_fetch_and_add(&n_delays, 1);
			usleep(50);
		}
	} else if (perturb && mode != 1) {
		delay(mix(seed + 77 + (uint64_t)(t + 1) * 0xd6e8feb86659fd93ULL));
	}
	pthread_mutex_lock(&mtx);
	if (t != (size_t)-1 && t < MAXI) {
		int over = 0;
		for (i = lo_live; i < t; ++i)
			if (!done_flag[i]) { over = 1; break; }
		done_flag[t] = 1;
		if (over) ++n_overtake;
		ord_hash = (ord_hash ^ (uint64_t)(t + 1)) * 1099511628211ULL;
	}
	pthread_mutex_unlock(&mtx);
	return r;
}

static int traced_submit(thread_pool_t *p, void *item)
{
	int r;
	pthread_mutex_lock(&mtx);
	if (n_sub < MAXI) { sub_ptr[n_sub] = item; done_flag[n_sub] = 0; ++n_sub; }
	pthread_mutex_unlock(&mtx);
	r = real_submit(p, item);
	if (r != 0) {
		pthread_mutex_lock(&mtx);
		if (n_sub > 0 && sub_ptr[n_sub - 1] == item) --n_sub;
		pthread_mutex_unlock(&mtx);
	}
	return r;
}

static void *traced_dequeue(thread_pool_t *p)
{
	void *it = real_dequeue(p);
	if (it != NULL) {
		pthread_mutex_lock(&mtx);
		if (n_deq >= n_sub || sub_ptr[n_deq] != it) fifo_ok = 0;
		if (n_deq < MAXI) sub_ptr[n_deq] = NULL;
		++n_deq;
		lo_live = n_deq;
		pthread_mutex_unlock(&mtx);
	}
	return it;
}

static void dump(void)
{
	const char *path = getenv("C02_TRACE_FILE");
	FILE *f;
	if (!path) return;
	f = fopen(path, "w");
	if (!f) return;
	fprintf(f, "submitted=%zu overtakes=%zu order=%016llx workers=%zu fifo=%d handoffs=%zu perturb=%d mode=%d delays=%zu started=%zu\n", n_sub,
		n_overtake, (unsigned long long)ord_hash, nworkers, fifo_ok, n_handoff, perturb, mode, n_delays, n_started);
	fclose(f);
}

thread_pool_t *__real_thread_pool_create(size_t num_jobs, thread_pool_worker_t worker);
thread_pool_t *__wrap_thread_pool_create(size_t num_jobs, thread_pool_worker_t worker)
{
	const char *s = getenv("C02_PERTURB_SEED"), *u = getenv("C02_PERTURB_US");
	thread_pool_t *p;
	real_worker = worker;
	perturb = s != NULL;
	seed = s ? strtoull(s, NULL, 10) : 0;
	max_us = u ? atoi(u) : 200;
	mode = getenv("C02_PERTURB_MODE") ? atoi(getenv("C02_PERTURB_MODE")) : 0;
	first_ms = getenv("C02_PERTURB_FIRST_MS") ? atoi(getenv("C02_PERTURB_FIRST_MS")) : 40;
	if (!sub_ptr) {
		sub_ptr = calloc(MAXI, sizeof(*sub_ptr));
		done_flag = calloc(MAXI, 1);
		if (!sub_ptr || !done_flag) abort();
		atexit(dump);
	}
	p = __real_thread_pool_create(num_jobs, traced_worker);
	if (p != NULL) {
		real_submit = p->submit;
		real_dequeue = p->dequeue;
		p->submit = traced_submit;
		p->dequeue = traced_dequeue;
		nworkers = p->get_worker_count(p);
	}
	return p;
}
