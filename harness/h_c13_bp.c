/*
 * h_c13_bp.c — C13, second layer: drives the *real* block processor (frontend.c, backend.c, block_processor.c,
 * block_writer.c, frag_table.c, threadpool.c from the working tree) through an API session while
 * harness/shim_fault.c makes the k-th allocation / file operation fail, and reports what every API call returned.
 *
 * usage: h_c13_bp <output file> < sessions
 * One session per input line, tokens separated by blanks (sizes in units of 1 KiB, block size = 4 units):
 *     B<i><d>[<n>]     sqfs_block_processor_begin_file, i: with inode, d: SQFS_BLK_DONT_FRAGMENT, n: SQFS_BLK_DONT_DEDUPLICATE
 *     A<n>:<c>         sqfs_block_processor_append of n units of content class c:
 *                        z all zero | u unique bytes | s shared bytes (same for every `s` chunk of equal size)
 *     E                end_file        S  sync        F  finish
 * Output, one line per session:   <rc class per call, stopping after the first error>  fired=<call index|-1> digest=<hex>
 *     rc class: ok | err;  digest: FNV-1a over the bytes written to the output file and the inodes the block
 *     processor produced (type, size, fragment location, block start, sparse count, block size words)
 * The fault (VF_CLASS / VF_K / …) is armed once per process: run one session per process when injecting.
 */
#include "config.h"
#include "sqfs/block_processor.h"
#include "sqfs/block_writer.h"
#include "sqfs/block.h"
#include "sqfs/frag_table.h"
#include "sqfs/compressor.h"
#include "sqfs/inode.h"
#include "sqfs/error.h"
#include "sqfs/io.h"

#include <stdio.h>
#include <stdlib.h>
#include <string.h>

/* the harness' own allocations must not be counted */
#undef malloc
#undef calloc
#undef realloc
#undef strdup
#undef strndup

extern int vf_fired(void);
extern void vf_arm(int on);

#define UNIT 1024
#define BLKSZ (4 * UNIT)

static unsigned long uniq_ctr;

static unsigned long long fnv(unsigned long long h, const void *data, size_t n)
{
	const unsigned char *p = data;

	while (n--) {
		h ^= *p++;
		h *= 1099511628211ULL;
	}
	return h;
}

static void fill(unsigned char *buf, size_t n, char cls)
{
	size_t i;

	if (cls == 'z') {
		memset(buf, 0, n);
	} else if (cls == 's') {
		for (i = 0; i < n; ++i)
			buf[i] = (unsigned char)(0x41 + (i * 7 + n) % 23);
	} else {
		unsigned long x = 0x9E3779B97F4A7C15UL * (++uniq_ctr);

		for (i = 0; i < n; ++i) {
			x = x * 6364136223846793005UL + 1442695040888963407UL;
			buf[i] = (unsigned char)(x >> 56) | 1;
		}
	}
}

int main(int argc, char **argv)
{
	static char line[65536];
	static unsigned char buf[64 * UNIT];

	if (argc != 2)
		return 2;

	while (fgets(line, sizeof(line), stdin) != NULL) {
		sqfs_block_processor_desc_t desc;
		sqfs_inode_generic_t *inodes[256];
		sqfs_compressor_config_t cfg;
		sqfs_block_processor_t *proc = NULL;
		sqfs_compressor_t *cmp = NULL, *uncmp = NULL;
		sqfs_block_writer_t *wr = NULL;
		sqfs_frag_table_t *tbl = NULL;
		sqfs_file_t *file = NULL;
		size_t ninodes = 0, i;
		int call = 0, fired_at = -1, ret;
		char *tok;

		/* set-up is not under test: the fault is armed afterwards */
		vf_arm(0);
		if (sqfs_file_open(&file, argv[1], SQFS_FILE_OPEN_OVERWRITE))
			return 3;
		sqfs_compressor_config_init(&cfg, SQFS_COMP_GZIP, BLKSZ, 0);
		if (sqfs_compressor_create(&cfg, &cmp))
			return 3;
		cfg.flags |= SQFS_COMP_FLAG_UNCOMPRESS;
		if (sqfs_compressor_create(&cfg, &uncmp))
			return 3;
		wr = sqfs_block_writer_create(file, 0);
		tbl = sqfs_frag_table_create(0);
		if (wr == NULL || tbl == NULL)
			return 3;
		memset(&desc, 0, sizeof(desc));
		desc.size = sizeof(desc);
		desc.max_block_size = BLKSZ;
		desc.num_workers = 1;
		desc.max_backlog = 3;
		desc.cmp = cmp;
		desc.wr = wr;
		desc.tbl = tbl;
		desc.file = file;
		desc.uncmp = uncmp;
		if (sqfs_block_processor_create_ex(&desc, &proc))
			return 3;
		vf_arm(1);

		for (tok = strtok(line, " \t\r\n"); tok != NULL; tok = strtok(NULL, " \t\r\n")) {
			switch (tok[0]) {
			case 'B':
				if (ninodes >= 256)
					return 2;
				inodes[ninodes] = NULL;
				ret = sqfs_block_processor_begin_file(proc, tok[1] == '1' ? &inodes[ninodes] : NULL, NULL,
								      (tok[2] == '1' ? SQFS_BLK_DONT_FRAGMENT : 0) |
								      (tok[2] != '\0' && tok[3] == '1' ? SQFS_BLK_DONT_DEDUPLICATE : 0));
				ninodes += 1;
				break;
			case 'A': {
				unsigned long n = strtoul(tok + 1, NULL, 10) * UNIT;
				const char *c = strchr(tok, ':');

				if (n > sizeof(buf) || c == NULL)
					return 2;
				fill(buf, n, c[1]);
				ret = sqfs_block_processor_append(proc, buf, n);
				break;
			}
			case 'E':
				ret = sqfs_block_processor_end_file(proc);
				break;
			case 'S':
				ret = sqfs_block_processor_sync(proc);
				break;
			case 'F':
				ret = sqfs_block_processor_finish(proc);
				break;
			default:
				return 2;
			}
			if (fired_at < 0 && vf_fired())
				fired_at = call;
			fputs(ret == 0 ? "ok " : "err ", stdout);
			call += 1;
			if (ret != 0)
				break;
		}
		vf_arm(0);
		{
			unsigned long long h = 1469598103934665603ULL;
			sqfs_u64 sz = file->get_size(file), off = 0;

			while (off < sz) {
				size_t n = (sz - off) > sizeof(buf) ? sizeof(buf) : (size_t)(sz - off);

				if (file->read_at(file, off, buf, n))
					break;
				h = fnv(h, buf, n);
				off += n;
			}
			for (i = 0; i < ninodes; ++i) {
				sqfs_u64 fsz = 0, start = 0;
				sqfs_u32 fidx = 0, foff = 0;

				if (inodes[i] == NULL)
					continue;
				sqfs_inode_get_file_size(inodes[i], &fsz);
				sqfs_inode_get_file_block_start(inodes[i], &start);
				sqfs_inode_get_frag_location(inodes[i], &fidx, &foff);
				h = fnv(h, &inodes[i]->base.type, sizeof(inodes[i]->base.type));
				h = fnv(h, &fsz, sizeof(fsz));
				h = fnv(h, &start, sizeof(start));
				h = fnv(h, &fidx, sizeof(fidx));
				h = fnv(h, &foff, sizeof(foff));
				if (inodes[i]->base.type == SQFS_INODE_EXT_FILE)
					h = fnv(h, &inodes[i]->data.file_ext.sparse, sizeof(inodes[i]->data.file_ext.sparse));
				h = fnv(h, &inodes[i]->payload_bytes_used, sizeof(inodes[i]->payload_bytes_used));
				h = fnv(h, inodes[i]->extra, inodes[i]->payload_bytes_used);
			}
			printf(" fired=%d digest=%llx\n", fired_at, h);
			fflush(stdout);
		}

		sqfs_drop(proc);
		for (i = 0; i < ninodes; ++i)
			free(inodes[i]);
		sqfs_drop(tbl);
		sqfs_drop(wr);
		sqfs_drop(uncmp);
		sqfs_drop(cmp);
		sqfs_drop(file);
	}

	return 0;
}
