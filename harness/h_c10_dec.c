/*
 * C10 harness, part 4: the real metadata decoders over the in-memory file and toy codec of h_c10.c — the dir
 * reader (read_inode.c, readdir.c, dir_reader.c), the xattr reader (xattr/xattr_reader.c) and the id table
 * (id_table.c, read_table.c).  Same line protocol as `sqfsmodel c10` (lean/Driver/C10.lean):
 *
 *   dd <k> new <inode_start> <dir_start> <id_start> <frag_start> <export_start> <root_ref> <block_size>   -> ok
 *   dd <k> inode <ref> | ls <ref> | path <hex>        -> <answer of reader k> || <answer of a reader created for the query>
 *   dd <k> open <j> <ref>  -> st=<status>             (get_inode + open_dir into cursor slot j)
 *   dd <k> next <j>        -> <answer> || <fresh>     (one sqfs_dir_reader_read with cursor j; a failure closes the slot)
 *   xr <k> new <no_xattrs> <xattr_table_start> <id_table_start> <bytes_used>   -> st=<load status>
 *   xr <k> desc <idx> | all <idx>                     -> <answer> || <fresh>
 *   xr <k> seek <xattr> | key | val | valt <type>     -> <answer>   (valt: read_value with a key header of that type)
 *   idt <k> new <id_count> <id_start> <dir_start> <frag_start> <export_start> <bytes_used>   -> st=<status>
 *   idt <k> get <idx>                                 -> <answer> || <fresh>
 */
#include "config.h"
#include "sqfs/predef.h"
#include "sqfs/io.h"
#include "sqfs/compressor.h"
#include "sqfs/dir_reader.h"
#include "sqfs/meta_reader.h"
#include "sqfs/xattr_reader.h"
#include "sqfs/id_table.h"
#include "sqfs/inode.h"
#include "sqfs/super.h"
#include "sqfs/xattr.h"
#include "sqfs/dir.h"
#include "sqfs/error.h"
#include "hexio.h"
#include <stdio.h>
#include <stdlib.h>
#include <string.h>

sqfs_file_t *h_c10_memfile(void);
sqfs_compressor_t *h_c10_toy(void);

static int du64(const char *s, sqfs_u64 *out)
{
	char *end;
	if (!s || !*s) return -1;
	*out = strtoull(s, &end, 10);
	return *end ? -1 : 0;
}

/* ------------------------------------------------------------------ dir reader */

#define NDD 8
#define NCUR 16
static sqfs_dir_reader_t *g_dd[NDD];
static sqfs_super_t g_dd_super[NDD];
static sqfs_dir_reader_state_t g_cur[NCUR];
static int g_cur_open[NCUR];

static sqfs_dir_reader_t *mk_dd(int k)
{
	sqfs_dir_reader_t *d = sqfs_dir_reader_create(&g_dd_super[k], h_c10_toy(), h_c10_memfile(), 0);
	if (!d) abort();
	return d;
}

static void show_inode(int st, const sqfs_inode_generic_t *i)
{
	size_t nf = 0, j;
	sqfs_u64 f64[8];
	if (st) { printf("st=%d", st); return; }
	printf("st=0 t=%u m=%u u=%u g=%u mt=%u i=%u f=", i->base.type, i->base.mode, i->base.uid_idx, i->base.gid_idx,
	       i->base.mod_time, i->base.inode_number);
	switch (i->base.type) {
	case SQFS_INODE_DIR:
		f64[0] = i->data.dir.start_block; f64[1] = i->data.dir.nlink; f64[2] = i->data.dir.size;
		f64[3] = i->data.dir.offset; f64[4] = i->data.dir.parent_inode; nf = 5; break;
	case SQFS_INODE_FILE:
		f64[0] = i->data.file.blocks_start; f64[1] = i->data.file.fragment_index; f64[2] = i->data.file.fragment_offset;
		f64[3] = i->data.file.file_size; nf = 4; break;
	case SQFS_INODE_SLINK:
		f64[0] = i->data.slink.nlink; f64[1] = i->data.slink.target_size; nf = 2; break;
	case SQFS_INODE_BDEV: case SQFS_INODE_CDEV:
		f64[0] = i->data.dev.nlink; f64[1] = i->data.dev.devno; nf = 2; break;
	case SQFS_INODE_FIFO: case SQFS_INODE_SOCKET:
		f64[0] = i->data.ipc.nlink; nf = 1; break;
	case SQFS_INODE_EXT_DIR:
		f64[0] = i->data.dir_ext.nlink; f64[1] = i->data.dir_ext.size; f64[2] = i->data.dir_ext.start_block;
		f64[3] = i->data.dir_ext.parent_inode; f64[4] = i->data.dir_ext.inodex_count; f64[5] = i->data.dir_ext.offset;
		f64[6] = i->data.dir_ext.xattr_idx; nf = 7; break;
	case SQFS_INODE_EXT_FILE:
		f64[0] = i->data.file_ext.blocks_start; f64[1] = i->data.file_ext.file_size; f64[2] = i->data.file_ext.sparse;
		f64[3] = i->data.file_ext.nlink; f64[4] = i->data.file_ext.fragment_idx; f64[5] = i->data.file_ext.fragment_offset;
		f64[6] = i->data.file_ext.xattr_idx; nf = 7; break;
	case SQFS_INODE_EXT_SLINK:
		f64[0] = i->data.slink_ext.nlink; f64[1] = i->data.slink_ext.target_size; f64[2] = i->data.slink_ext.xattr_idx; nf = 3; break;
	case SQFS_INODE_EXT_BDEV: case SQFS_INODE_EXT_CDEV:
		f64[0] = i->data.dev_ext.nlink; f64[1] = i->data.dev_ext.devno; f64[2] = i->data.dev_ext.xattr_idx; nf = 3; break;
	case SQFS_INODE_EXT_FIFO: case SQFS_INODE_EXT_SOCKET:
		f64[0] = i->data.ipc_ext.nlink; f64[1] = i->data.ipc_ext.xattr_idx; nf = 2; break;
	default: nf = 0; break;
	}
	if (nf == 0) putchar('-');
	for (j = 0; j < nf; ++j) printf("%s%llu", j ? "," : "", (unsigned long long)f64[j]);
	printf(" x=");
	/* payload: block sizes / link target / directory index, as stored in memory (little endian host) */
	hex_print(stdout, (const unsigned char *)i->extra, i->payload_bytes_used);
}

static void show_ent(const sqfs_dir_node_t *e)
{
	sqfs_u16 diff;
	memcpy(&diff, &e->inode_diff, 2);
	printf("%u:%u:%u:%u:", e->offset, diff, e->type, e->size);
	hex_print(stdout, e->name, (size_t)e->size + 1);
}

static void dd_inode(sqfs_dir_reader_t *d, sqfs_u64 ref)
{
	sqfs_inode_generic_t *ino = NULL;
	int st = sqfs_dir_reader_get_inode(d, ref, &ino);
	show_inode(st, ino);
	if (st == 0) sqfs_free(ino);
}

static void dd_ls(sqfs_dir_reader_t *d, sqfs_u64 ref)
{
	sqfs_inode_generic_t *ino = NULL;
	sqfs_dir_reader_state_t state;
	char *buf = NULL; size_t len = 0; FILE *mem;
	unsigned long n = 0;
	int st = sqfs_dir_reader_get_inode(d, ref, &ino);
	if (st) { printf("st=%d", st); return; }
	st = sqfs_dir_reader_open_dir(d, ino, &state, 0);
	sqfs_free(ino);
	if (st) { printf("st=%d", st); return; }
	mem = open_memstream(&buf, &len);
	if (!mem) abort();
	for (;;) {
		sqfs_dir_node_t *ent = NULL;
		st = sqfs_dir_reader_read(d, &state, &ent);
		if (st != 0) break;
		if (n) fputc(';', mem);
		{
			sqfs_u16 diff; size_t i;
			static const char hx[] = "0123456789abcdef";
			memcpy(&diff, &ent->inode_diff, 2);
			fprintf(mem, "%u:%u:%u:%u:", ent->offset, diff, ent->type, ent->size);
			for (i = 0; i < (size_t)ent->size + 1; ++i) { fputc(hx[ent->name[i] >> 4], mem); fputc(hx[ent->name[i] & 15], mem); }
			fprintf(mem, ":%llu", (unsigned long long)state.ent_ref);
		}
		sqfs_free(ent);
		if (++n > 1000000) { st = -999; break; }
	}
	fclose(mem);
	if (st < 0) printf("st=%d", st);
	else printf("st=0 n=%lu e=%s", n, n ? buf : "-");
	free(buf);
}

static void dd_path(sqfs_dir_reader_t *d, const char *path)
{
	sqfs_u64 ref = 0;
	int st = sqfs_dir_reader_resolve_path(d, path, NULL, &ref);
	if (st) printf("st=%d", st); else printf("st=0 ref=%llu", (unsigned long long)ref);
}

static int dd_next(sqfs_dir_reader_t *d, sqfs_dir_reader_state_t *state)
{
	sqfs_dir_node_t *ent = NULL;
	int st = sqfs_dir_reader_read(d, state, &ent);
	if (st > 0) printf("eof");
	else if (st < 0) printf("st=%d", st);
	else { printf("ent="); show_ent(ent); printf(" ref=%llu", (unsigned long long)state->ent_ref); sqfs_free(ent); }
	return st;
}

void op_dd(char **w, int nw)
{
	sqfs_u64 k, a[7];
	sqfs_dir_reader_t *fresh;
	if (nw < 3 || du64(w[1], &k) || k >= NDD) { puts("bad-op"); return; }
	if (!strcmp(w[2], "new") && nw == 10) {
		int i;
		for (i = 0; i < 7; ++i) if (du64(w[3 + i], &a[i])) { puts("bad-op"); return; }
		if (g_dd[k]) g_dd[k] = sqfs_drop(g_dd[k]);
		memset(&g_dd_super[k], 0, sizeof(g_dd_super[k]));
		g_dd_super[k].inode_table_start = a[0];
		g_dd_super[k].directory_table_start = a[1];
		g_dd_super[k].id_table_start = a[2];
		g_dd_super[k].fragment_table_start = a[3];
		g_dd_super[k].export_table_start = a[4];
		g_dd_super[k].root_inode_ref = a[5];
		g_dd_super[k].block_size = (sqfs_u32)a[6];
		g_dd_super[k].xattr_id_table_start = 0xFFFFFFFFFFFFFFFFULL;
		g_dd[k] = mk_dd((int)k);
		puts("ok");
		return;
	}
	if (!g_dd[k]) { puts("bad-op"); return; }
	if (!strcmp(w[2], "inode") && nw == 4 && !du64(w[3], &a[0])) {
		dd_inode(g_dd[k], a[0]); printf(" || ");
		fresh = mk_dd((int)k); dd_inode(fresh, a[0]); sqfs_drop(fresh); putchar('\n');
	} else if (!strcmp(w[2], "ls") && nw == 4 && !du64(w[3], &a[0])) {
		dd_ls(g_dd[k], a[0]); printf(" || ");
		fresh = mk_dd((int)k); dd_ls(fresh, a[0]); sqfs_drop(fresh); putchar('\n');
	} else if (!strcmp(w[2], "path") && nw == 4) {
		unsigned char *p; long n = hex_decode_tok(w[3], &p, 1);
		if (n < 0 || memchr(p, 0, (size_t)n)) { puts("bad-op"); if (n >= 0) free(p); return; }
		dd_path(g_dd[k], (const char *)p); printf(" || ");
		fresh = mk_dd((int)k); dd_path(fresh, (const char *)p); sqfs_drop(fresh); putchar('\n');
		free(p);
	} else if (!strcmp(w[2], "open") && nw == 5 && !du64(w[3], &a[0]) && !du64(w[4], &a[1]) && a[0] < NCUR) {
		sqfs_inode_generic_t *ino = NULL;
		int st = sqfs_dir_reader_get_inode(g_dd[k], a[1], &ino);
		g_cur_open[a[0]] = 0;
		if (st == 0) {
			st = sqfs_dir_reader_open_dir(g_dd[k], ino, &g_cur[a[0]], 0);
			sqfs_free(ino);
			if (st == 0) g_cur_open[a[0]] = 1;
		}
		printf("st=%d\n", st);
	} else if (!strcmp(w[2], "next") && nw == 4 && !du64(w[3], &a[0]) && a[0] < NCUR) {
		sqfs_dir_reader_state_t copy;
		int st;
		if (!g_cur_open[a[0]]) { puts("closed"); return; }
		copy = g_cur[a[0]];
		st = dd_next(g_dd[k], &g_cur[a[0]]);
		if (st < 0) g_cur_open[a[0]] = 0;
		printf(" || ");
		fresh = mk_dd((int)k); dd_next(fresh, &copy); sqfs_drop(fresh); putchar('\n');
	} else puts("bad-op");
}

/* ------------------------------------------------------------------ xattr reader */

#define NXR 8
static sqfs_xattr_reader_t *g_xr[NXR];
static sqfs_super_t g_xr_super[NXR];
static sqfs_xattr_entry_t *g_xr_key[NXR];
static int g_xr_loaded[NXR];

static sqfs_xattr_reader_t *mk_xr(int k, int *st)
{
	sqfs_xattr_reader_t *x = sqfs_xattr_reader_create(0);
	if (!x) abort();
	*st = sqfs_xattr_reader_load(x, &g_xr_super[k], h_c10_memfile(), h_c10_toy());
	return x;
}

static void xr_desc(sqfs_xattr_reader_t *x, sqfs_u64 idx)
{
	sqfs_xattr_id_t desc;
	int st = sqfs_xattr_reader_get_desc(x, (sqfs_u32)idx, &desc);
	if (st) printf("st=%d", st);
	else printf("st=0 x=%llu c=%u s=%u", (unsigned long long)desc.xattr, desc.count, desc.size);
}

static void xr_all(sqfs_xattr_reader_t *x, sqfs_u64 idx)
{
	sqfs_xattr_t *list = NULL, *it;
	unsigned long n = 0;
	int st = sqfs_xattr_reader_read_all(x, (sqfs_u32)idx, &list);
	if (st) { printf("st=%d", st); return; }
	for (it = list; it; it = it->next) ++n;
	printf("st=0 n=%lu kv=", n);
	if (!n) putchar('-');
	for (it = list; it; it = it->next) {
		/* the key may hold NUL bytes (damaged image): its real length is what lies before the value */
		hex_print(stdout, (const unsigned char *)it->key, (size_t)((const char *)it->value - it->key) - 1);
		putchar(':');
		hex_print(stdout, it->value, it->value_len);
		if (it->next) putchar(';');
	}
	sqfs_xattr_list_free(list);
}

void op_xr(char **w, int nw)
{
	sqfs_u64 k, a[4];
	int st;
	if (nw < 3 || du64(w[1], &k) || k >= NXR) { puts("bad-op"); return; }
	if (!strcmp(w[2], "new") && nw == 7) {
		int i;
		for (i = 0; i < 4; ++i) if (du64(w[3 + i], &a[i])) { puts("bad-op"); return; }
		if (g_xr[k]) g_xr[k] = sqfs_drop(g_xr[k]);
		if (g_xr_key[k]) { sqfs_free(g_xr_key[k]); g_xr_key[k] = NULL; }
		memset(&g_xr_super[k], 0, sizeof(g_xr_super[k]));
		if (a[0]) g_xr_super[k].flags |= SQFS_FLAG_NO_XATTRS;
		g_xr_super[k].xattr_id_table_start = a[1];
		g_xr_super[k].id_table_start = a[2];
		g_xr_super[k].bytes_used = a[3];
		g_xr[k] = mk_xr((int)k, &st);
		g_xr_loaded[k] = (st == 0 && !a[0] && a[1] != 0xFFFFFFFFFFFFFFFFULL);
		printf("st=%d\n", st);
		return;
	}
	if (!g_xr[k]) { puts("bad-op"); return; }
	if ((!strcmp(w[2], "desc") || !strcmp(w[2], "all")) && nw == 4 && !du64(w[3], &a[0])) {
		sqfs_xattr_reader_t *fresh;
		int all = w[2][0] == 'a';
		if (all) {
			xr_all(g_xr[k], a[0]);
			if (g_xr_key[k]) { sqfs_free(g_xr_key[k]); g_xr_key[k] = NULL; }
		} else xr_desc(g_xr[k], a[0]);
		printf(" || ");
		fresh = mk_xr((int)k, &st);
		if (all) xr_all(fresh, a[0]); else xr_desc(fresh, a[0]);
		sqfs_drop(fresh);
		putchar('\n');
	} else if (!strcmp(w[2], "seek") && nw == 4 && !du64(w[3], &a[0])) {
		sqfs_xattr_id_t desc;
		memset(&desc, 0, sizeof(desc));
		desc.xattr = a[0];
		if (g_xr_key[k]) { sqfs_free(g_xr_key[k]); g_xr_key[k] = NULL; }
		printf("st=%d\n", sqfs_xattr_reader_seek_kv(g_xr[k], &desc));
	} else if (!strcmp(w[2], "key") && nw == 3) {
		sqfs_xattr_entry_t *key = NULL;
		/* read_key dereferences kvrd: only legal when a table was loaded */
		if (!g_xr_loaded[k]) { puts("noreader"); return; }
		if (g_xr_key[k]) { sqfs_free(g_xr_key[k]); g_xr_key[k] = NULL; }
		st = sqfs_xattr_reader_read_key(g_xr[k], &key);
		if (st) printf("st=%d\n", st);
		else {
			printf("st=0 t=%u s=%u k=", key->type, key->size);
			hex_print(stdout, key->key, strlen(sqfs_get_xattr_prefix(key->type & SQFS_XATTR_PREFIX_MASK)) + key->size);
			putchar('\n');
			g_xr_key[k] = key;
		}
	} else if (!strcmp(w[2], "val") && nw == 3) {
		sqfs_xattr_value_t *val = NULL;
		if (!g_xr_key[k]) { puts("nokey"); return; }
		st = sqfs_xattr_reader_read_value(g_xr[k], g_xr_key[k], &val);
		sqfs_free(g_xr_key[k]); g_xr_key[k] = NULL;
		if (st) printf("st=%d\n", st);
		else { printf("st=0 v="); hex_print(stdout, val->value, val->size); putchar('\n'); sqfs_free(val); }
	} else if (!strcmp(w[2], "valt") && nw == 4 && !du64(w[3], &a[0]) && a[0] < 65536) {
		/* read_value with a key header of the caller's making (its type may not match the stream: an invalid argument,
		   or what a flipped bit in the key type does) */
		sqfs_xattr_entry_t key;
		sqfs_xattr_value_t *val = NULL;
		if (!g_xr_loaded[k]) { puts("noreader"); return; }
		memset(&key, 0, sizeof(key));
		key.type = (sqfs_u16)a[0];
		if (g_xr_key[k]) { sqfs_free(g_xr_key[k]); g_xr_key[k] = NULL; }
		st = sqfs_xattr_reader_read_value(g_xr[k], &key, &val);
		if (st) printf("st=%d\n", st);
		else { printf("st=0 v="); hex_print(stdout, val->value, val->size); putchar('\n'); sqfs_free(val); }
	} else puts("bad-op");
}

/* ------------------------------------------------------------------ id table */

#define NIDT 8
static sqfs_id_table_t *g_idt[NIDT];
static sqfs_super_t g_idt_super[NIDT];
static int g_idt_st[NIDT];

static sqfs_id_table_t *mk_idt(int k, int *st)
{
	sqfs_id_table_t *t = sqfs_id_table_create(0);
	if (!t) abort();
	*st = sqfs_id_table_read(t, h_c10_memfile(), &g_idt_super[k], h_c10_toy());
	return t;
}

static void idt_get(sqfs_id_table_t *t, int load_st, sqfs_u64 idx)
{
	sqfs_u32 id = 0;
	int st;
	if (load_st) { printf("noids"); return; }
	st = sqfs_id_table_index_to_id(t, (sqfs_u16)idx, &id);
	if (st) printf("st=%d", st); else printf("st=0 id=%u", id);
}

void op_idt(char **w, int nw)
{
	sqfs_u64 k, a[6];
	if (nw < 3 || du64(w[1], &k) || k >= NIDT) { puts("bad-op"); return; }
	if (!strcmp(w[2], "new") && nw == 9) {
		int i;
		for (i = 0; i < 6; ++i) if (du64(w[3 + i], &a[i])) { puts("bad-op"); return; }
		if (g_idt[k]) g_idt[k] = sqfs_drop(g_idt[k]);
		memset(&g_idt_super[k], 0, sizeof(g_idt_super[k]));
		g_idt_super[k].id_count = (sqfs_u16)a[0];
		g_idt_super[k].id_table_start = a[1];
		g_idt_super[k].directory_table_start = a[2];
		g_idt_super[k].fragment_table_start = a[3];
		g_idt_super[k].export_table_start = a[4];
		g_idt_super[k].bytes_used = a[5];
		g_idt[k] = mk_idt((int)k, &g_idt_st[k]);
		printf("st=%d\n", g_idt_st[k]);
		return;
	}
	if (!g_idt[k]) { puts("bad-op"); return; }
	if (!strcmp(w[2], "get") && nw == 4 && !du64(w[3], &a[0]) && a[0] < 65536) {
		sqfs_id_table_t *fresh;
		int st;
		idt_get(g_idt[k], g_idt_st[k], a[0]);
		printf(" || ");
		fresh = mk_idt((int)k, &st);
		idt_get(fresh, st, a[0]);
		sqfs_drop(fresh);
		putchar('\n');
	} else puts("bad-op");
}

void h_c10_dec_reset(void)
{
	int i;
	for (i = 0; i < NDD; ++i) if (g_dd[i]) g_dd[i] = sqfs_drop(g_dd[i]);
	for (i = 0; i < NCUR; ++i) g_cur_open[i] = 0;
	for (i = 0; i < NXR; ++i) {
		if (g_xr[i]) g_xr[i] = sqfs_drop(g_xr[i]);
		if (g_xr_key[i]) { sqfs_free(g_xr_key[i]); g_xr_key[i] = NULL; }
	}
	for (i = 0; i < NIDT; ++i) if (g_idt[i]) g_idt[i] = sqfs_drop(g_idt[i]);
}
