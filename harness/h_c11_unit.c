/*
 * h_c11_unit.c — unit harness for the native directory iterator (property C11).
 *
 * Compiles the REAL lib/sqfs/src/io/dir_unix.c from the working tree into this translation unit (so that the static
 * functions `compare_names` and `read_names` are the ones under test) and links harness/shim_readdir.c around readdir.
 *
 * Line protocol (hex tokens, "-" = empty):
 *   cmp <a> <b>              → sign of compare_names(&a, &b)                                   "-1" | "0" | "1"
 *   readnames <order> <dir>  → the names sqfs_dir_iterator_create_native(dir) serves, in order, then the readdir log:
 *                              "ok <name>* @@ <log>"  |  "err <code> @@ <log>"
 */
#include "hexio.h"
#include "lib/sqfs/src/io/dir_unix.c"

char *shim_readdir_take_log(void);

static void print_log(void)
{
	char *log = shim_readdir_take_log(), *p;
	for (p = log; *p; ++p) {
		if (*p == '\n')
			*p = ';';
	}
	fputs(" @@ ", stdout);
	fputs(log, stdout);
	free(log);
}

int main(void)
{
	char *line = NULL;
	size_t cap = 0;
	ssize_t len;

	while ((len = getline(&line, &cap, stdin)) > 0) {
		char *argv[4], *save = NULL, *t;
		int argc = 0;

		for (t = strtok_r(line, " \r\n", &save); t != NULL && argc < 4; t = strtok_r(NULL, " \r\n", &save))
			argv[argc++] = t;

		if (argc == 3 && strcmp(argv[0], "cmp") == 0) {
			unsigned char *a = NULL, *b = NULL;
			const char *pa, *pb;
			int r;

			if (hex_decode_tok(argv[1], &a, 1) < 0 || hex_decode_tok(argv[2], &b, 1) < 0) {
				puts("bad-op");
				free(a);
				continue;
			}
			pa = (const char *)a;
			pb = (const char *)b;
			r = compare_names(&pa, &pb);
			printf("%d\n", r < 0 ? -1 : (r > 0 ? 1 : 0));
			free(a);
			free(b);
		} else if (argc == 3 && strcmp(argv[0], "readnames") == 0) {
			unsigned char *dir = NULL;
			sqfs_dir_iterator_t *it = NULL;
			int ret;

			if (hex_decode_tok(argv[2], &dir, 1) < 0) { puts("bad-op"); continue; }
			setenv("VERIF_READDIR_ORDER", argv[1], 1);
			ret = sqfs_dir_iterator_create_native(&it, (const char *)dir, 0);
			if (ret != 0) {
				printf("err %d", ret);
			} else {
				/* collect first: an error in the middle must not leave a half-printed "ok" line */
				char *buf = NULL;
				size_t blen = 0, bmax = 0;

				for (;;) {
					sqfs_dir_entry_t *ent = NULL;
					size_t n, i;

					ret = it->next(it, &ent);
					if (ret != 0)
						break;
					n = strlen(ent->name);
					if (blen + 2 * n + 3 > bmax) {
						bmax = (blen + 2 * n + 3) * 2;
						buf = realloc(buf, bmax);
						if (buf == NULL)
							abort();
					}
					buf[blen++] = ' ';
					if (n == 0)
						buf[blen++] = '-';
					for (i = 0; i < n; ++i) {
						static const char hx[] = "0123456789abcdef";
						buf[blen++] = hx[(unsigned char)ent->name[i] >> 4];
						buf[blen++] = hx[(unsigned char)ent->name[i] & 15];
					}
					sqfs_free(ent);
				}
				if (ret < 0) {
					printf("err %d", ret);
				} else {
					fputs("ok", stdout);
					if (buf != NULL)
						fwrite(buf, 1, blen, stdout);
				}
				free(buf);
				sqfs_drop(it);
			}
			print_log();
			fputc('\n', stdout);
			free(dir);
		} else {
			puts("bad-op");
		}
		fflush(stdout);
	}
	free(line);
	return 0;
}
