/*
 * C02, tool level: LD_PRELOAD library that makes the *locale / time zone / environment sensitive* entry points of libc
 * observable and, on request, hostile.  No locale other than C / C.utf8 / POSIX can be installed in the sandbox, so a
 * `setlocale(LC_ALL, "")` + `strcoll` slip in the packers could never show with LC_ALL=tr_TR.UTF-8 alone.  This library
 * stands in for a real non-C locale:
 *
 *   recorded (every call, written to C02_LOCALE_LOG at exit as `name=count …`, plus the arguments of setlocale and the
 *   names asked of getenv):
 *     strcoll strxfrm strcasecmp strncasecmp strcasestr wcscoll  tolower toupper (functions) __ctype_b_loc
 *     __ctype_tolower_loc __ctype_toupper_loc (what the isalpha()/tolower() macros expand to)  setlocale newlocale
 *     uselocale localeconv nl_langinfo  localtime localtime_r mktime tzset strftime ctime ctime_r  umask getcwd  getenv
 *     secure_getenv  fnmatch (gensquashfs: `glob … -name` of a pack file, `[glob]` lines of a sort file)
 *
 *   with C02_LOCALE_HOSTILE=1: a fake locale "xx_XX.HOSTILE" becomes active for a category as soon as the program calls
 *   setlocale(category, "") or setlocale(category, <anything but "C"/"POSIX">) — exactly when a real environment with
 *   LC_ALL=tr_TR.ISO-8859-9 would take effect.  While active:
 *     strcoll / strxfrm    order strings by their case-folded, punctuation-free form, *descending*, bytes last
 *     strcasecmp & co      Turkish folding: 'I' and 'i' are different letters (I↔ı 0xFD, İ 0xDD↔i), Latin-5 high bytes fold
 *     ctype tables         bytes 0xC0…0xFF are letters; tolower('I') = 0xFD, toupper('i') = 0xDD
 *     localeconv           decimal_point ",", thousands_sep "."
 *     fnmatch              matches case-insensitively (Turkish folding, Latin-5 high bytes are letters): `[a-z]*` matches "Zeta",
 *                          ranges like [a-Z] / [A-z] cover all letters, as they do in a collating locale
 *     localtime & co       a time zone 13 h 45 min east of UTC with DST (independent of setlocale: TZ is always "set")
 *
 * The image must not change under this library; the calls recorded say which locale-sensitive functions the packers use
 * at all (tools/checks/c02.py: `locale_level`).  `C02_LOCALE_SELFTEST` is used by the check to prove the library is bound.
 */
#define _GNU_SOURCE
#include <ctype.h>
#include <dlfcn.h>
#include <fnmatch.h>
#include <langinfo.h>
#include <locale.h>
#include <stdio.h>
#include <stdlib.h>
#include <string.h>
#include <sys/stat.h>
#include <time.h>
#include <unistd.h>
#include <wchar.h>

extern char **environ;

enum { F_STRCOLL, F_STRXFRM, F_STRCASECMP, F_STRNCASECMP, F_STRCASESTR, F_WCSCOLL, F_TOLOWER, F_TOUPPER, F_CTYPE_B, F_CTYPE_LOWER,
       F_CTYPE_UPPER, F_SETLOCALE, F_NEWLOCALE, F_USELOCALE, F_LOCALECONV, F_NL_LANGINFO, F_LOCALTIME, F_LOCALTIME_R, F_MKTIME,
       F_TZSET, F_STRFTIME, F_CTIME, F_UMASK, F_GETCWD, F_GETENV, F_FNMATCH, F_COUNT };
static const char *fname[F_COUNT] = { "strcoll", "strxfrm", "strcasecmp", "strncasecmp", "strcasestr", "wcscoll", "tolower", "toupper",
	"ctype_b_loc", "ctype_tolower_loc", "ctype_toupper_loc", "setlocale", "newlocale", "uselocale", "localeconv", "nl_langinfo",
	"localtime", "localtime_r", "mktime", "tzset", "strftime", "ctime", "umask", "getcwd", "getenv", "fnmatch" };
static unsigned long cnt[F_COUNT];
static int hostile = -1, act_collate, act_ctype, act_numeric;
static char setlog[512], envlog[1024];

/* getenv without libc's getenv (we interpose it) */
static const char *env_raw(const char *name)
{
	size_t n;
	char **e;
	if (!environ || !name) return NULL;
	n = strlen(name);
	for (e = environ; *e; ++e)
		if (strncmp(*e, name, n) == 0 && (*e)[n] == '=') return *e + n + 1;
	return NULL;
}
static int is_hostile(void)
{
	if (hostile < 0) { const char *h = env_raw("C02_LOCALE_HOSTILE"); hostile = h && h[0] == '1'; }
	return hostile;
}
static void note(char *buf, size_t cap, const char *s)
{
	size_t l = strlen(buf), n = strlen(s);
	char probe[80];
	if (n > 60) n = 60;
	snprintf(probe, sizeof probe, ",%.*s,", (int)n, s);
	if (l + n + 3 >= cap) return;
	{	/* de-duplicate */
		char tmp[1100];
		snprintf(tmp, sizeof tmp, ",%s", buf);
		if (strstr(tmp, probe)) return;
	}
	memcpy(buf + l, s, n); buf[l + n] = ','; buf[l + n + 1] = 0;
}
__attribute__((destructor)) static void dump(void)
{
	const char *p = env_raw("C02_LOCALE_LOG");
	FILE *f;
	int i;
	if (!p) return;
	f = fopen(p, "w");
	if (!f) return;
	for (i = 0; i < F_COUNT; ++i) fprintf(f, "%s=%lu ", fname[i], cnt[i]);
	fprintf(f, "hostile=%d active=%d%d%d setlocale_args=%s env_names=%s\n", is_hostile(), act_collate, act_ctype, act_numeric,
		setlog[0] ? setlog : "-", envlog[0] ? envlog : "-");
	fclose(f);
}

/* ------------------------------------------------------------------ the hostile locale */
static int h_lower(int c)
{
	c &= 0xFF;
	if (c == 'I') return 0xFD;                       /* dotless i */
	if (c == 0xDD) return 'i';                       /* I with dot */
	if (c >= 'A' && c <= 'Z') return c + 32;
	if (c >= 0xC0 && c <= 0xDE && c != 0xD7) return c + 32;
	return c;
}
static int h_upper(int c)
{
	c &= 0xFF;
	if (c == 'i') return 0xDD;
	if (c == 0xFD) return 'I';
	if (c >= 'a' && c <= 'z') return c - 32;
	if (c >= 0xE0 && c <= 0xFE && c != 0xF7) return c - 32;
	return c;
}
static int h_isalnum(int c) { c &= 0xFF; return (c >= '0' && c <= '9') || (c >= 'A' && c <= 'Z') || (c >= 'a' && c <= 'z') || c >= 0xC0; }
/* key: letters and digits only, folded; the order is DESCENDING; ties by the raw bytes, descending too */
static int h_coll(const char *a, const char *b)
{
	const unsigned char *p = (const unsigned char *)a, *q = (const unsigned char *)b;
	for (;;) {
		while (*p && !h_isalnum(*p)) ++p;
		while (*q && !h_isalnum(*q)) ++q;
		if (!*p || !*q) break;
		if (h_lower(*p) != h_lower(*q)) return h_lower(*p) < h_lower(*q) ? 1 : -1;
		++p; ++q;
	}
	if (*p) return -1;
	if (*q) return 1;
	return -strcmp(a, b);
}
static int h_casecmp(const char *a, const char *b, size_t n, int bounded)
{
	const unsigned char *p = (const unsigned char *)a, *q = (const unsigned char *)b;
	size_t i;
	for (i = 0; !bounded || i < n; ++i) {
		int x = h_lower(p[i]), y = h_lower(q[i]);
		if (x != y) return x < y ? -1 : 1;
		if (!p[i]) break;
	}
	return 0;
}

#define REAL(type, name) static __typeof__(type) real; if (!real) real = (__typeof__(type))dlsym(RTLD_NEXT, name)

/* fnmatch in the hostile locale: pattern and string are folded with the hostile case mapping (character class names
 * `[:upper:]` are left alone), then matched ignoring case */
static void h_fold(char *dst, size_t cap, const char *src, int is_pattern)
{
	size_t i = 0;
	int in_class = 0;
	for (; src[0] && i + 1 < cap; ++src) {
		if (is_pattern && src[0] == '[' && src[1] == ':') in_class = 1;
		else if (is_pattern && in_class && src[0] == ':' && src[1] == ']') in_class = 0;
		if (is_pattern && src[0] == '\\' && src[1]) { dst[i++] = *src++; if (i + 1 >= cap) break; dst[i++] = (char)h_lower((unsigned char)src[0]); continue; }
		dst[i++] = in_class ? src[0] : (char)h_lower((unsigned char)src[0]);
	}
	dst[i] = 0;
}
int fnmatch(const char *pattern, const char *string, int flags)
{
	REAL(int (*)(const char *, const char *, int), "fnmatch");
	++cnt[F_FNMATCH];
	if (is_hostile() && (act_collate || act_ctype) && pattern && string && strlen(pattern) < 4000 && strlen(string) < 4000) {
		char p[4096], s[4096];
		h_fold(p, sizeof p, pattern, 1);
		h_fold(s, sizeof s, string, 0);
		return real(p, s, flags | FNM_CASEFOLD);
	}
	return real(pattern, string, flags);
}

int strcoll(const char *a, const char *b)
{
	++cnt[F_STRCOLL];
	if (is_hostile() && act_collate) return h_coll(a, b);
	return strcmp(a, b);                              /* the C locale */
}
size_t strxfrm(char *dst, const char *src, size_t n)
{
	size_t l = strlen(src), i;
	++cnt[F_STRXFRM];
	for (i = 0; i < l && i + 1 < n; ++i)
		dst[i] = (is_hostile() && act_collate) ? (char)(255 - h_lower((unsigned char)src[i])) : src[i];
	if (n > 0) dst[i < n ? i : n - 1] = 0;
	return l;
}
int wcscoll(const wchar_t *a, const wchar_t *b)
{
	++cnt[F_WCSCOLL];
	return (is_hostile() && act_collate) ? -wcscmp(a, b) : wcscmp(a, b);
}
int strcasecmp(const char *a, const char *b)
{
	REAL(int (*)(const char *, const char *), "strcasecmp");
	++cnt[F_STRCASECMP];
	if (is_hostile() && act_ctype) return h_casecmp(a, b, 0, 0);
	return real(a, b);
}
int strncasecmp(const char *a, const char *b, size_t n)
{
	REAL(int (*)(const char *, const char *, size_t), "strncasecmp");
	++cnt[F_STRNCASECMP];
	if (is_hostile() && act_ctype) return h_casecmp(a, b, n, 1);
	return real(a, b, n);
}
char *strcasestr(const char *h, const char *n)
{
	REAL(char *(*)(const char *, const char *), "strcasestr");
	++cnt[F_STRCASESTR];
	return real(h, n);
}
#undef tolower
#undef toupper
int tolower(int c)
{
	++cnt[F_TOLOWER];
	if (is_hostile() && act_ctype && c >= 0 && c <= 255) return h_lower(c);
	return (c >= 'A' && c <= 'Z') ? c + 32 : c;
}
int toupper(int c)
{
	++cnt[F_TOUPPER];
	if (is_hostile() && act_ctype && c >= 0 && c <= 255) return h_upper(c);
	return (c >= 'a' && c <= 'z') ? c - 32 : c;
}

/* the tables behind the isalpha()/tolower() macros; index range -128 … 255 */
static unsigned short h_b[384];
static __int32_t h_lo[384], h_up[384];
static const unsigned short *h_b_p = h_b + 128;
static const __int32_t *h_lo_p = h_lo + 128, *h_up_p = h_up + 128;
static int tables_built;
static void build_tables(void)
{
	const unsigned short **(*rb)(void) = (const unsigned short **(*)(void))dlsym(RTLD_NEXT, "__ctype_b_loc");
	const __int32_t **(*rl)(void) = (const __int32_t **(*)(void))dlsym(RTLD_NEXT, "__ctype_tolower_loc");
	const __int32_t **(*ru)(void) = (const __int32_t **(*)(void))dlsym(RTLD_NEXT, "__ctype_toupper_loc");
	int i;
	for (i = -128; i < 256; ++i) {
		int c = i & 0xFF;
		h_b[i + 128] = (*rb())[i];
		h_lo[i + 128] = (*rl())[i];
		h_up[i + 128] = (*ru())[i];
		if (c >= 0xC0 && i != -1) {                 /* EOF (-1) keeps its class */
			h_b[i + 128] = (unsigned short)(_ISalpha | _ISalnum | _ISprint | _ISgraph | (c >= 0xE0 ? _ISlower : _ISupper));
		}
		if (i != -1) { h_lo[i + 128] = h_lower(c); h_up[i + 128] = h_upper(c); }
	}
	tables_built = 1;
}
const unsigned short **__ctype_b_loc(void)
{
	REAL(const unsigned short **(*)(void), "__ctype_b_loc");
	++cnt[F_CTYPE_B];
	if (is_hostile() && act_ctype) { if (!tables_built) build_tables(); return &h_b_p; }
	return real();
}
const __int32_t **__ctype_tolower_loc(void)
{
	REAL(const __int32_t **(*)(void), "__ctype_tolower_loc");
	++cnt[F_CTYPE_LOWER];
	if (is_hostile() && act_ctype) { if (!tables_built) build_tables(); return &h_lo_p; }
	return real();
}
const __int32_t **__ctype_toupper_loc(void)
{
	REAL(const __int32_t **(*)(void), "__ctype_toupper_loc");
	++cnt[F_CTYPE_UPPER];
	if (is_hostile() && act_ctype) { if (!tables_built) build_tables(); return &h_up_p; }
	return real();
}

char *setlocale(int category, const char *locale)
{
	REAL(char *(*)(int, const char *), "setlocale");
	char tmp[96];
	++cnt[F_SETLOCALE];
	snprintf(tmp, sizeof tmp, "%d:%s", category, locale ? (locale[0] ? locale : "\"\"") : "NULL");
	note(setlog, sizeof setlog, tmp);
	if (is_hostile() && locale != NULL && (locale[0] == 0 || (strcmp(locale, "C") != 0 && strcmp(locale, "POSIX") != 0))) {
		if (category == LC_ALL || category == LC_COLLATE) act_collate = 1;
		if (category == LC_ALL || category == LC_CTYPE) act_ctype = 1;
		if (category == LC_ALL || category == LC_NUMERIC) act_numeric = 1;
		return (char *)"xx_XX.HOSTILE";
	}
	if (is_hostile() && locale != NULL) {               /* back to "C" */
		if (category == LC_ALL || category == LC_COLLATE) act_collate = 0;
		if (category == LC_ALL || category == LC_CTYPE) act_ctype = 0;
		if (category == LC_ALL || category == LC_NUMERIC) act_numeric = 0;
	}
	if (is_hostile() && locale == NULL && (act_collate || act_ctype || act_numeric)) return (char *)"xx_XX.HOSTILE";
	return real(category, locale);
}
locale_t newlocale(int mask, const char *locale, locale_t base)
{
	REAL(locale_t (*)(int, const char *, locale_t), "newlocale");
	++cnt[F_NEWLOCALE];
	note(setlog, sizeof setlog, locale ? locale : "NULL");
	return real(mask, locale, base);
}
locale_t uselocale(locale_t l)
{
	REAL(locale_t (*)(locale_t), "uselocale");
	++cnt[F_USELOCALE];
	return real(l);
}
struct lconv *localeconv(void)
{
	REAL(struct lconv *(*)(void), "localeconv");
	static struct lconv h;
	++cnt[F_LOCALECONV];
	if (is_hostile() && act_numeric) {
		h = *real();
		h.decimal_point = (char *)",";
		h.thousands_sep = (char *)".";
		return &h;
	}
	return real();
}
char *nl_langinfo(nl_item item)
{
	REAL(char *(*)(nl_item), "nl_langinfo");
	++cnt[F_NL_LANGINFO];
	return real(item);
}

/* ------------------------------------------------------------------ time zone */
#define TZ_SHIFT (13 * 3600 + 45 * 60)
struct tm *localtime_r(const time_t *t, struct tm *out)
{
	REAL(struct tm *(*)(const time_t *, struct tm *), "localtime_r");
	++cnt[F_LOCALTIME_R];
	if (is_hostile()) {
		time_t s = *t + TZ_SHIFT;
		gmtime_r(&s, out);
		out->tm_isdst = 1;
		return out;
	}
	return real(t, out);
}
struct tm *localtime(const time_t *t)
{
	static struct tm buf;
	REAL(struct tm *(*)(const time_t *), "localtime");
	++cnt[F_LOCALTIME];
	if (is_hostile()) {
		time_t s = *t + TZ_SHIFT;
		gmtime_r(&s, &buf);
		buf.tm_isdst = 1;
		return &buf;
	}
	return real(t);
}
time_t mktime(struct tm *tm)
{
	REAL(time_t (*)(struct tm *), "mktime");
	++cnt[F_MKTIME];
	if (is_hostile()) return timegm(tm) - TZ_SHIFT;
	return real(tm);
}
void tzset(void)
{
	REAL(void (*)(void), "tzset");
	++cnt[F_TZSET];
	real();
}
size_t strftime(char *s, size_t max, const char *fmt, const struct tm *tm)
{
	REAL(size_t (*)(char *, size_t, const char *, const struct tm *), "strftime");
	++cnt[F_STRFTIME];
	return real(s, max, fmt, tm);
}
char *ctime(const time_t *t)
{
	REAL(char *(*)(const time_t *), "ctime");
	++cnt[F_CTIME];
	return real(t);
}

/* ------------------------------------------------------------------ process environment */
mode_t umask(mode_t m)
{
	REAL(mode_t (*)(mode_t), "umask");
	++cnt[F_UMASK];
	return real(m);
}
char *getcwd(char *buf, size_t size)
{
	REAL(char *(*)(char *, size_t), "getcwd");
	++cnt[F_GETCWD];
	return real(buf, size);
}
char *getenv(const char *name)
{
	++cnt[F_GETENV];
	if (name && strncmp(name, "C02_", 4) != 0) note(envlog, sizeof envlog, name);
	return (char *)env_raw(name);
}
char *secure_getenv(const char *name)
{
	++cnt[F_GETENV];
	if (name && strncmp(name, "C02_", 4) != 0) note(envlog, sizeof envlog, name);
	return (char *)env_raw(name);
}
