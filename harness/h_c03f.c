/*
 * C03 harness for lib/common/src/writer/finish.c: the real static padd_sqfs() on the same lines as
 * `sqfsmodel c03 ops`:
 *
 *   pad <size> <blocksize>      padd_sqfs(file, size, blocksize) on a file that holds <size> bytes; the file object
 *                               only counts (sizes up to 2^62 cost nothing) and checks that what is written is zero
 *                               bytes appended at the end.  Output:  pad=<bytes appended> rc=<return value>
 *                               (`pad=… BAD-WRITE` if anything but zero bytes at the end of the file was written)
 *
 * finish.c is #included to reach the static function; everything else is linked from the working tree's library.
 */
#include "config.h"
#include "lib/common/src/writer/finish.c"
#include <stdio.h>
#include <string.h>

static sqfs_u64 vf_size, vf_written;
static int vf_bad;

static int vf_write_at(sqfs_file_t *f, sqfs_u64 off, const void *buf, size_t size)
{
	size_t i;
	(void)f;
	if (off != vf_size) vf_bad = 1;
	for (i = 0; i < size; ++i) if (((const unsigned char *)buf)[i]) vf_bad = 1;
	vf_size = off + size;
	vf_written += size;
	return 0;
}
static sqfs_u64 vf_get_size(const sqfs_file_t *f) { (void)f; return vf_size; }
static sqfs_file_t vfile = { { 1, NULL, NULL }, NULL, vf_write_at, vf_get_size, NULL, NULL };

int main(void)
{
	static char line[4096];
	while (fgets(line, sizeof(line), stdin)) {
		char *op = strtok(line, " \n"), *a = strtok(NULL, " \n"), *b = strtok(NULL, " \n");
		if (!op || strcmp(op, "pad") || !a || !b || strtoull(b, NULL, 10) == 0) { puts("bad-op"); fflush(stdout); continue; }
		vf_size = strtoull(a, NULL, 10); vf_written = 0; vf_bad = 0;
		{
			int rc = padd_sqfs(&vfile, vf_size, (size_t)strtoull(b, NULL, 10));
			printf("pad=%llu%s rc=%d\n", (unsigned long long)vf_written, vf_bad ? " BAD-WRITE" : "", rc);
		}
		fflush(stdout);
	}
	return 0;
}
