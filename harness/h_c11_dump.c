/*
 * h_c11_dump.c — reads a SquashFS image back with the REAL reader (libsquashfs from the working tree) and prints,
 * for every entry, what C11 says must not depend on the readdir order: path, inode number, type/mode, ids, mtime,
 * link count, symlink target / device number, and for regular files the location of their data (start of the
 * data blocks, fragment index and offset), i.e. the data placement.
 *
 * usage: h_c11_dump <image>
 * one line per entry, DFS, children in on-disk (= sorted) order:
 *   E <hex path> <inode number> <type> <mode octal> <uid> <gid> <mtime> <nlink> <extra>
 *     extra: "s:<hex target>" | "d:<devno>" | "f:<size>:<blocks_start>:<frag idx>:<frag off>" | "-"
 * exit status 0 on success, 1 if the image cannot be read.
 */
#include "config.h"
#include "common.h"
#include "dir_tree.h"
#include "hexio.h"

static void dump(const sqfs_tree_node_t *n)
{
	const sqfs_inode_generic_t *in = n->inode;
	const sqfs_tree_node_t *c;
	unsigned long nlink = 0;
	char *path = NULL;
	const char *p;

	if (sqfs_tree_node_get_path(n, &path) != 0) {
		puts("E ? path-error");
		return;
	}
	p = path;
	while (*p == '/')
		++p;
	fputs("E ", stdout);
	hex_print(stdout, (const unsigned char *)p, strlen(p));
	sqfs_free(path);

	switch (in->base.type) {
	case SQFS_INODE_DIR: nlink = in->data.dir.nlink; break;
	case SQFS_INODE_EXT_DIR: nlink = in->data.dir_ext.nlink; break;
	case SQFS_INODE_FILE: nlink = 1; break;
	case SQFS_INODE_EXT_FILE: nlink = in->data.file_ext.nlink; break;
	case SQFS_INODE_SLINK: nlink = in->data.slink.nlink; break;
	case SQFS_INODE_EXT_SLINK: nlink = in->data.slink_ext.nlink; break;
	case SQFS_INODE_BDEV: case SQFS_INODE_CDEV: nlink = in->data.dev.nlink; break;
	case SQFS_INODE_EXT_BDEV: case SQFS_INODE_EXT_CDEV: nlink = in->data.dev_ext.nlink; break;
	case SQFS_INODE_FIFO: case SQFS_INODE_SOCKET: nlink = in->data.ipc.nlink; break;
	case SQFS_INODE_EXT_FIFO: case SQFS_INODE_EXT_SOCKET: nlink = in->data.ipc_ext.nlink; break;
	default: break;
	}

	printf(" %lu %u %o %lu %lu %lu %lu ", (unsigned long)in->base.inode_number, (unsigned)in->base.type,
	       (unsigned)in->base.mode, (unsigned long)n->uid, (unsigned long)n->gid, (unsigned long)in->base.mod_time, nlink);

	switch (in->base.type) {
	case SQFS_INODE_SLINK:
	case SQFS_INODE_EXT_SLINK: {
		size_t len = in->base.type == SQFS_INODE_SLINK ? in->data.slink.target_size : in->data.slink_ext.target_size;
		fputs("s:", stdout);
		hex_print(stdout, (const unsigned char *)in->extra, len);
		break;
	}
	case SQFS_INODE_BDEV: case SQFS_INODE_CDEV:
		printf("d:%lu", (unsigned long)in->data.dev.devno);
		break;
	case SQFS_INODE_EXT_BDEV: case SQFS_INODE_EXT_CDEV:
		printf("d:%lu", (unsigned long)in->data.dev_ext.devno);
		break;
	case SQFS_INODE_FILE:
	case SQFS_INODE_EXT_FILE: {
		sqfs_u64 size = 0, start = 0;
		sqfs_u32 fidx = 0, foff = 0;
		sqfs_inode_get_file_size(in, &size);
		sqfs_inode_get_file_block_start(in, &start);
		sqfs_inode_get_frag_location(in, &fidx, &foff);
		printf("f:%llu:%llu:%lu:%lu", (unsigned long long)size, (unsigned long long)start, (unsigned long)fidx,
		       (unsigned long)foff);
		break;
	}
	default:
		fputs("-", stdout);
		break;
	}
	fputc('\n', stdout);

	for (c = n->children; c != NULL; c = c->next)
		dump(c);
}

int main(int argc, char **argv)
{
	sqfs_compressor_config_t cfg;
	sqfs_compressor_t *cmp = NULL;
	sqfs_dir_reader_t *dirrd = NULL;
	sqfs_id_table_t *idtbl = NULL;
	sqfs_tree_node_t *root = NULL;
	sqfs_file_t *file = NULL;
	sqfs_super_t super;
	int status = 1;

	if (argc != 2)
		return 2;
	if (sqfs_file_open(&file, argv[1], SQFS_FILE_OPEN_READ_ONLY))
		goto out;
	if (sqfs_super_read(&super, file))
		goto out;
	sqfs_compressor_config_init(&cfg, super.compression_id, super.block_size, SQFS_COMP_FLAG_UNCOMPRESS);
	if (sqfs_compressor_create(&cfg, &cmp))
		goto out;
	idtbl = sqfs_id_table_create(0);
	if (idtbl == NULL || sqfs_id_table_read(idtbl, file, &super, cmp))
		goto out;
	dirrd = sqfs_dir_reader_create(&super, cmp, file, 0);
	if (dirrd == NULL)
		goto out;
	if (sqfs_dir_reader_get_full_hierarchy(dirrd, idtbl, NULL, 0, &root))
		goto out;
	printf("S inodes=%lu root=%llu\n", (unsigned long)super.inode_count, (unsigned long long)super.root_inode_ref);
	dump(root);
	status = 0;
out:
	if (root != NULL)
		sqfs_dir_tree_destroy(root);
	sqfs_drop(dirrd);
	sqfs_drop(idtbl);
	sqfs_drop(cmp);
	sqfs_drop(file);
	return status;
}
