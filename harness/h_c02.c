/*
 * C02 harness: the REAL block processor (lib/sqfs/src/block_processor/{frontend,backend,block_processor}.c),
 * block writer, fragment table and hash table from the working tree, created the way lib/common/src/writer/init.c
 * does (sqfs_block_processor_create_ex with the output file and an uncompressor), on the REAL threadpool.c compiled
 * with -include shim_sched.h, under a controlled schedule of the cooperative scheduler (harness/sched.c).
 * Linked against a library built with threadpool_serial.c (NO_THREAD_IMPL) the same program is the serial reference.
 *
 *   bp <workers> <max_backlog> <policy> <sched-seed> <B> <bc 0|1> <hbits> <toy|none> <pre-hex> <chunk> <nfiles> (<flags-dec> <data-hex>)*
 *   bps …the same…   and sqfs_block_processor_sync() is called before every end_file (while the file is still open)
 *   bpx <workers> <max_backlog> <policy> <sched-seed> <B> <bc> <hbits> <toy|none|toyf> <pre-hex> <chunk> <nops> (f <flags-dec> <data-hex> | m <flags-dec> <data-hex> | s)*
 *        an API script: f = a file (begin_file / append / end_file), m = sqfs_block_processor_submit_block (manual submission),
 *        s = sqfs_block_processor_sync between them.  Codec `toyf` = the toy codec whose compressing do_block FAILS
 *        (SQFS_ERROR_COMPRESSOR) on every block that starts with the byte 0xEE: determinism of failure
 *        (Sqfs/Model/BlockProcFail.lean, `sqfsmodel c02 runx`); `wfail=` in the trace counts the failed callbacks.
 *
 * The whole client (create, begin/append/end per file, finish, destroy) runs as modelled thread 0; the workers are
 * created by thread_pool_create.  Output, one line (same canonical text as `sqfsmodel c02 run`, then ` # ` and the
 * trace statistics):
 *   ok W=<n> <chk>:<flags>:<data>… F=<n> <start>:<word>… I=<n> <size>:<start>:<fi>:<fo>:<sparse>:<ext>:<words>… Z=<len>:<fnv>
 *   err <code>
 *   # steps=.. dl=<deadlock> mtx=<mutex held at a scheduling point> sub=<items submitted> fifo=<dequeue order = submit order>
 *     ovt=<items that completed before an earlier submitted one> fbovt=<the same, the overtaking item being a fragment block>
 *     ord=<fnv of the completion order> maxq=<max items inside the pool> spur=<spurious wake-ups taken>
 *
 * Scheduling policies (thread 0 = client, 1.. = workers): 0 uniform random | 1 client first | 2 workers first |
 * 3 worker 1 slow | 4 worker 1 starved | 5 newest worker first (LIFO) | 6 round robin | 7 random + spurious wake-ups |
 * 8 data blocks held back while anything else can run (a fragment block finishes before earlier data blocks) |
 * 9 completion reports held back (workers parked between the callback and store_completed)
 */
#include "config.h"
#include "hexio.h"

#include "sqfs/block_processor.h"
#include "sqfs/block_writer.h"
#include "sqfs/frag_table.h"
#include "sqfs/compressor.h"
#include "sqfs/inode.h"
#include "sqfs/error.h"
#include "sqfs/block.h"
#include "sqfs/io.h"
#include "lib/sqfs/src/block_processor/internal.h"

#ifndef VERIF_SHIM_SCHED_H
#include "shim_sched.h"
#endif

extern int verif_xxh_bits;

/* ------------------------------------------------------------------ toy codec (same as harness/h_c08.c, Sqfs/Model/ToyCodec.lean) */
typedef struct { sqfs_compressor_t base; int uncompress; size_t block_size; } toy_t;
static int g_codec_none, g_codec_fail;

static void toy_get_configuration(const sqfs_compressor_t *c, sqfs_compressor_config_t *cfg)
{
	const toy_t *t = (const toy_t *)c;
	memset(cfg, 0, sizeof(*cfg));
	cfg->id = SQFS_COMP_GZIP;
	cfg->block_size = t->block_size;
	if (t->uncompress) cfg->flags |= SQFS_COMP_FLAG_UNCOMPRESS;
}
static int toy_write_options(sqfs_compressor_t *c, sqfs_file_t *f) { (void)c; (void)f; return 0; }
static int toy_read_options(sqfs_compressor_t *c, sqfs_file_t *f) { (void)c; (void)f; return 0; }

static sqfs_s32 toy_do_block(sqfs_compressor_t *c, const sqfs_u8 *in, sqfs_u32 size, sqfs_u8 *out, sqfs_u32 outsize)
{
	toy_t *t = (toy_t *)c;
	sqfs_u32 i, o = 0;
	if (t->uncompress) {
		if (g_codec_none) {
			if (size > outsize) return 0;
			memcpy(out, in, size);
			return (sqfs_s32)size;
		}
		if (size % 2) return SQFS_ERROR_CORRUPTED;
		for (i = 0; i < size; i += 2) {
			sqfs_u32 n = in[i + 1];
			if (n == 0) return SQFS_ERROR_CORRUPTED;
			if (n > outsize - o) return 0;
			memset(out + o, in[i], n);
			o += n;
		}
		return (sqfs_s32)o;
	}
	if (g_codec_none) return 0;
	if (g_codec_fail && size > 0 && in[0] == 0xEE) return SQFS_ERROR_COMPRESSOR;   /* the compressor fails on marked blocks */
	if (vs_self() >= 0) vs_yield("cmp");       /* a worker can be pre-empted in the middle of a block */
	i = 0;
	while (i < size) {
		sqfs_u32 n = 1;
		while (i + n < size && n < 255 && in[i + n] == in[i]) ++n;
		if (o + 2 > outsize || o + 2 >= size) return 0;
		out[o++] = in[i];
		out[o++] = (sqfs_u8)n;
		i += n;
	}
	return (sqfs_s32)o;
}
static void toy_destroy(sqfs_object_t *o) { free(o); }
static sqfs_object_t *toy_copy(const sqfs_object_t *o)
{
	toy_t *t = malloc(sizeof(*t));
	if (!t) return NULL;
	memcpy(t, o, sizeof(*t));
	((sqfs_object_t *)t)->refcount = 1;
	return (sqfs_object_t *)t;
}
static sqfs_compressor_t *toy_create(size_t block_size, int uncompress)
{
	toy_t *t = calloc(1, sizeof(*t));
	if (!t) abort();
	sqfs_object_init(t, toy_destroy, toy_copy);
	t->base.get_configuration = toy_get_configuration;
	t->base.write_options = toy_write_options;
	t->base.read_options = toy_read_options;
	t->base.do_block = toy_do_block;
	t->uncompress = uncompress;
	t->block_size = block_size;
	return (sqfs_compressor_t *)t;
}

/* ------------------------------------------------------------------ memory file (lib/sqfs/src/io/file.c semantics) */
typedef struct { sqfs_file_t base; unsigned char *buf; size_t size, cap; } memfile_t;

static void mf_reserve(memfile_t *f, size_t n)
{
	if (n > f->cap) {
		size_t nc = n * 2 + 64;
		f->buf = realloc(f->buf, nc);
		if (!f->buf) abort();
		f->cap = nc;
	}
}
static int mf_read_at(sqfs_file_t *b, sqfs_u64 off, void *buffer, size_t size)
{
	memfile_t *f = (memfile_t *)b;
	if (size == 0) return 0;
	if (off > f->size || size > f->size - off) return SQFS_ERROR_OUT_OF_BOUNDS;
	memcpy(buffer, f->buf + off, size);
	return 0;
}
static int mf_write_at(sqfs_file_t *b, sqfs_u64 off, const void *buffer, size_t size)
{
	memfile_t *f = (memfile_t *)b;
	if (size == 0) return 0;
	mf_reserve(f, off + size);
	if (off > f->size) memset(f->buf + f->size, 0, off - f->size);
	memcpy(f->buf + off, buffer, size);
	if (off + size > f->size) f->size = off + size;
	return 0;
}
static sqfs_u64 mf_get_size(const sqfs_file_t *b) { return ((const memfile_t *)b)->size; }
static int mf_truncate(sqfs_file_t *b, sqfs_u64 size)
{
	memfile_t *f = (memfile_t *)b;
	mf_reserve(f, size);
	if (size > f->size) memset(f->buf + f->size, 0, size - f->size);
	f->size = size;
	return 0;
}
static const char *mf_get_filename(sqfs_file_t *b) { (void)b; return "mem"; }
static void mf_destroy(sqfs_object_t *o) { memfile_t *f = (memfile_t *)o; free(f->buf); free(f); }
static memfile_t *memfile_create(const unsigned char *pre, size_t n)
{
	memfile_t *f = calloc(1, sizeof(*f));
	if (!f) abort();
	sqfs_object_init(f, mf_destroy, NULL);
	f->base.read_at = mf_read_at;
	f->base.write_at = mf_write_at;
	f->base.get_size = mf_get_size;
	f->base.truncate = mf_truncate;
	f->base.get_filename = mf_get_filename;
	mf_reserve(f, n + 1);
	memcpy(f->buf, pre, n);
	f->size = n;
	return f;
}

/* ------------------------------------------------------------------ output text */
static char *obuf;
static size_t olen, ocap;
static void o_reserve(size_t n)
{
	if (olen + n + 1 > ocap) {
		ocap = (olen + n + 1) * 2;
		obuf = realloc(obuf, ocap);
		if (!obuf) abort();
	}
}
static void o_puts(const char *s) { size_t n = strlen(s); o_reserve(n); memcpy(obuf + olen, s, n + 1); olen += n; }
static void o_hex(const unsigned char *p, size_t n)
{
	static const char d[] = "0123456789abcdef";
	size_t i;
	if (n == 0) { o_puts("-"); return; }
	o_reserve(2 * n);
	for (i = 0; i < n; ++i) { obuf[olen++] = d[p[i] >> 4]; obuf[olen++] = d[p[i] & 15]; }
	obuf[olen] = 0;
}

/* ------------------------------------------------------------------ logging block writer around the real one */
typedef struct { sqfs_block_writer_t base; sqfs_block_writer_t *inner; } logwr_t;
static size_t n_wcalls;
static char *wbuf;
static size_t wlen, wcap;

static int lw_write(sqfs_block_writer_t *b, void *user, sqfs_u32 size, sqfs_u32 checksum, sqfs_u32 flags,
		    const sqfs_u8 *data, sqfs_u64 *location)
{
	logwr_t *w = (logwr_t *)b;
	static const char d[] = "0123456789abcdef";
	char tmp[64];
	size_t need = 32 + 2 * (size_t)size, i, n;
	if (wlen + need + 1 > wcap) {
		wcap = (wlen + need + 1) * 2;
		wbuf = realloc(wbuf, wcap);
		if (!wbuf) abort();
	}
	n = (size_t)snprintf(tmp, sizeof tmp, " %08x:%04x:", (unsigned)checksum, (unsigned)flags);
	memcpy(wbuf + wlen, tmp, n); wlen += n;
	if (size == 0) wbuf[wlen++] = '-';
	for (i = 0; i < size; ++i) { wbuf[wlen++] = d[data[i] >> 4]; wbuf[wlen++] = d[data[i] & 15]; }
	wbuf[wlen] = 0;
	++n_wcalls;
	return w->inner->write_data_block(w->inner, user, size, checksum, flags, data, location);
}
static sqfs_u64 lw_count(const sqfs_block_writer_t *b) { const logwr_t *w = (const logwr_t *)b; return w->inner->get_block_count(w->inner); }
static void lw_destroy(sqfs_object_t *o) { logwr_t *w = (logwr_t *)o; sqfs_drop(w->inner); free(w); }

/* ------------------------------------------------------------------ pool trace (link-time wrapper of thread_pool_create) */
#define MAXITEMS 65536
static thread_pool_worker_t real_worker;
static int (*real_submit)(thread_pool_t *, void *);
static void *(*real_dequeue)(thread_pool_t *);
static void *sub_ptr[MAXITEMS];
static unsigned char sub_isfb[MAXITEMS];
static size_t n_sub, n_deq, n_done, in_pool, max_in_pool, n_wfail;
static size_t lo_live;              /* every ticket below this one has been dequeued */
static size_t n_overtake, n_fb_overtake;
static int fifo_ok;
static uint64_t ord_hash;

static size_t ticket_of(void *item)
{
	size_t i;
	for (i = n_sub; i > lo_live; --i)
		if (sub_ptr[i - 1] == item)
			return i - 1;
	return (size_t)-1;
}

/* completion bookkeeping that needs per-ticket state */
static unsigned char done_flag[MAXITEMS];
static void mark_done(void *item)
{
	size_t t = ticket_of(item), i;
	int over = 0;
	if (t == (size_t)-1) return;
	for (i = lo_live; i < t; ++i)
		if (!done_flag[i]) { over = 1; break; }
	done_flag[t] = 1;
	if (over) { ++n_overtake; if (sub_isfb[t]) ++n_fb_overtake; }
}

static int traced_worker(void *user, void *item)
{
	int r;
	if (vs_self() >= 0) vs_yield(((sqfs_block_t *)item)->flags & SQFS_BLK_FRAGMENT_BLOCK ? "fb" : "data");
	r = real_worker(user, item);
	if (r != 0) ++n_wfail;
	{
		size_t t = ticket_of(item);
		if (t != (size_t)-1) ord_hash = (ord_hash ^ (uint64_t)(t + 1)) * 1099511628211ULL;
	}
	mark_done(item);
	if (vs_self() >= 0) vs_yield("done");
	return r;
}

static int traced_submit(thread_pool_t *p, void *item)
{
	int r;
	if (n_sub < MAXITEMS) {
		sub_ptr[n_sub] = item;
		sub_isfb[n_sub] = (((sqfs_block_t *)item)->flags & SQFS_BLK_FRAGMENT_BLOCK) != 0;
		done_flag[n_sub] = 0;
	}
	r = real_submit(p, item);
	if (r == 0) {
		++n_sub;
		if (++in_pool > max_in_pool) max_in_pool = in_pool;
	}
	return r;
}

static void *traced_dequeue(thread_pool_t *p)
{
	void *it = real_dequeue(p);
	if (it != NULL) {
		if (n_deq >= n_sub || sub_ptr[n_deq] != it) fifo_ok = 0;
		sub_ptr[n_deq] = NULL;
		++n_deq;
		lo_live = n_deq;
		--in_pool;
	}
	return it;
}

thread_pool_t *__real_thread_pool_create(size_t num_jobs, thread_pool_worker_t worker);
thread_pool_t *__wrap_thread_pool_create(size_t num_jobs, thread_pool_worker_t worker)
{
	thread_pool_t *p;
	real_worker = worker;
	p = __real_thread_pool_create(num_jobs, traced_worker);
	if (p != NULL) {
		real_submit = p->submit;
		real_dequeue = p->dequeue;
		p->submit = traced_submit;
		p->dequeue = traced_dequeue;
	}
	return p;
}

/* ------------------------------------------------------------------ workload */
#define MAXFILES 4096
typedef struct { unsigned flags; unsigned char *data; size_t size; char kind; } wfile_t;
static wfile_t wf[MAXFILES];
static int nfiles, g_workers;
static size_t g_backlog, g_blocksize, g_chunk;
static int g_bc, g_sync;
static unsigned char *g_pre;
static size_t g_prelen;
static int g_rc;

static void print_inode(const sqfs_inode_generic_t *ino)
{
	char tmp[160];
	sqfs_u64 fsz = 0, loc = 0, sparse = 0;
	sqfs_u32 fi = 0, fo = 0;
	size_t nb, k;
	int ext;
	if (ino == NULL) { o_puts(" null"); return; }
	sqfs_inode_get_file_size(ino, &fsz);
	sqfs_inode_get_file_block_start(ino, &loc);
	sqfs_inode_get_frag_location(ino, &fi, &fo);
	ext = ino->base.type == SQFS_INODE_EXT_FILE;
	if (ext) sparse = ino->data.file_ext.sparse;
	nb = sqfs_inode_get_file_block_count(ino);
	snprintf(tmp, sizeof tmp, " %llu:%llu:%u:%u:%llu:%d:", (unsigned long long)fsz, (unsigned long long)loc,
		 (unsigned)fi, (unsigned)fo, (unsigned long long)sparse, ext);
	o_puts(tmp);
	if (nb == 0) o_puts("-");
	for (k = 0; k < nb; ++k) {
		snprintf(tmp, sizeof tmp, "%s%u", k ? "," : "", (unsigned)ino->extra[k]);
		o_puts(tmp);
	}
}

static uint64_t fnv(uint64_t h, const void *p, size_t n)
{
	const unsigned char *b = p;
	size_t i;
	for (i = 0; i < n; ++i) h = (h ^ b[i]) * 1099511628211ULL;
	return h;
}

static void *client(void *arg)
{
	sqfs_compressor_t *cmp = toy_create(g_blocksize, 0), *uncmp = toy_create(g_blocksize, 1);
	memfile_t *mf = memfile_create(g_pre, g_prelen);
	sqfs_frag_table_t *tbl = sqfs_frag_table_create(0);
	sqfs_block_processor_desc_t desc;
	sqfs_block_processor_t *proc = NULL;
	sqfs_inode_generic_t **inodes = calloc((size_t)nfiles + 1, sizeof(*inodes));
	logwr_t *lw = calloc(1, sizeof(*lw));
	char tmp[96];
	size_t k;
	int i, ret;
	(void)arg;
	if (!lw || !inodes || !tbl) abort();
	sqfs_object_init(lw, lw_destroy, NULL);
	lw->base.write_data_block = lw_write;
	lw->base.get_block_count = lw_count;
	lw->inner = sqfs_block_writer_create((sqfs_file_t *)mf, 0);
	memset(&desc, 0, sizeof(desc));
	desc.size = sizeof(desc);
	desc.max_block_size = g_blocksize;
	desc.num_workers = (unsigned)g_workers;
	desc.max_backlog = (sqfs_u32)g_backlog;
	desc.cmp = cmp;
	desc.wr = (sqfs_block_writer_t *)lw;
	desc.tbl = tbl;
	if (g_bc) {
		desc.file = (sqfs_file_t *)mf;
		desc.uncmp = uncmp;
	}
	ret = sqfs_block_processor_create_ex(&desc, &proc);
	for (i = 0; i < nfiles && ret == 0; ++i) {
		size_t off = 0, chunk = g_chunk ? g_chunk : (wf[i].size ? wf[i].size : 1);
		if (wf[i].kind == 'm') { ret = sqfs_block_processor_submit_block(proc, NULL, wf[i].flags, wf[i].data, wf[i].size); continue; }
		if (wf[i].kind == 's') { ret = sqfs_block_processor_sync(proc); continue; }
		ret = sqfs_block_processor_begin_file(proc, &inodes[i], NULL, wf[i].flags);
		while (ret == 0 && off < wf[i].size) {
			size_t c = wf[i].size - off < chunk ? wf[i].size - off : chunk;
			ret = sqfs_block_processor_append(proc, wf[i].data + off, c);
			off += c;
		}
		if (ret == 0 && g_sync) ret = sqfs_block_processor_sync(proc);
		if (ret == 0) ret = sqfs_block_processor_end_file(proc);
	}
	if (ret == 0) ret = sqfs_block_processor_finish(proc);
	g_rc = ret;
	olen = 0;
	o_reserve(16);
	obuf[0] = 0;
	if (ret != 0) {
		snprintf(tmp, sizeof tmp, "err %d", ret);
		o_puts(tmp);
	} else {
		size_t nf = sqfs_frag_table_get_size(tbl);
		snprintf(tmp, sizeof tmp, "ok W=%zu", n_wcalls);
		o_puts(tmp);
		if (wlen) o_puts(wbuf);
		snprintf(tmp, sizeof tmp, " F=%zu", nf);
		o_puts(tmp);
		for (k = 0; k < nf; ++k) {
			sqfs_fragment_t fr;
			sqfs_frag_table_lookup(tbl, (sqfs_u32)k, &fr);
			snprintf(tmp, sizeof tmp, " %llu:%u", (unsigned long long)fr.start_offset, (unsigned)fr.size);
			o_puts(tmp);
		}
		{
			int nreal = 0;
			for (i = 0; i < nfiles; ++i) if (wf[i].kind == 'f') ++nreal;
			snprintf(tmp, sizeof tmp, " I=%d", nreal);
		}
		o_puts(tmp);
		for (i = 0; i < nfiles; ++i)
			if (wf[i].kind == 'f') print_inode(inodes[i]);
		snprintf(tmp, sizeof tmp, " Z=%zu:%016llx", mf->size, (unsigned long long)fnv(14695981039346656037ULL, mf->buf, mf->size));
		o_puts(tmp);
	}
	if (proc) sqfs_drop(proc);               /* destroys the pool: joins the workers */
	for (i = 0; i < nfiles; ++i) free(inodes[i]);
	free(inodes);
	sqfs_drop(lw);
	sqfs_drop(tbl);
	sqfs_drop(mf);
	sqfs_drop(cmp);
	sqfs_drop(uncmp);
	return NULL;
}

/* ------------------------------------------------------------------ controller */
static uint64_t rng_x;
static unsigned rnd(unsigned n)
{
	rng_x = rng_x * 6364136223846793005ULL + 1442695040888963407ULL;
	return (unsigned)((rng_x >> 33) % n);
}

static int pick(int policy, const int *en, int n, int *rr)
{
	int i;
	switch (policy) {
	case 1:                                    /* client first */
		if (en[0] == 0 && rnd(8) != 0) return 0;
		break;
	case 2:                                    /* workers first */
		if (n > 1 && en[0] == 0 && rnd(8) != 0) return en[1 + rnd((unsigned)(n - 1))];
		break;
	case 3:                                    /* worker 1 slow */
	case 4:                                    /* worker 1 starved */
		if (n > 1) {
			int others[64], m = 0;
			for (i = 0; i < n; ++i) if (en[i] != 1) others[m++] = en[i];
			if (m > 0 && m < n && (policy == 4 || rnd(16) != 0)) return others[rnd((unsigned)m)];
		}
		break;
	case 5:                                    /* newest worker first */
		if (rnd(4) != 0) return en[n - 1];
		break;
	case 6:                                    /* round robin */
		for (i = 0; i < n; ++i) if (en[i] > *rr) { *rr = en[i]; return en[i]; }
		*rr = en[0];
		return en[0];
	case 8: {                                  /* hold data blocks back */
		int others[64], m = 0;
		for (i = 0; i < n; ++i) {
			const char *tag = vs_kind(en[i]) == VS_YIELD ? vs_tag(en[i]) : NULL;
			if (tag == NULL || (strcmp(tag, "data") != 0 && strcmp(tag, "cmp") != 0)) others[m++] = en[i];
		}
		if (m > 0 && rnd(16) != 0) return others[rnd((unsigned)m)];
		break;
	}
	case 9: {                                  /* hold completion reports back */
		int others[64], m = 0;
		for (i = 0; i < n; ++i) {
			const char *tag = vs_kind(en[i]) == VS_YIELD ? vs_tag(en[i]) : NULL;
			if (tag == NULL || strcmp(tag, "done") != 0) others[m++] = en[i];
		}
		if (m > 0 && rnd(8) != 0) return others[rnd((unsigned)m)];
		break;
	}
	default:
		break;
	}
	return en[rnd((unsigned)n)];
}

static char line[1 << 24];

static void run_line(void)
{
	char *save = NULL, *tok[12], *t;
	unsigned long steps0;
	int i, policy, dl = 0, mtx = 0, rr = -1, nspur = 0, isx;
	unsigned long guard = 0;
	for (i = 0; i < 12; ++i) {
		tok[i] = strtok_r(i == 0 ? line : NULL, " \n", &save);
		if (tok[i] == NULL) { puts("bad-op"); return; }
	}
	if (strcmp(tok[0], "bp") != 0 && strcmp(tok[0], "bps") != 0 && strcmp(tok[0], "bpx") != 0) { puts("bad-op"); return; }
	g_sync = strcmp(tok[0], "bps") == 0;
	isx = strcmp(tok[0], "bpx") == 0;
	g_workers = atoi(tok[1]);
	g_backlog = strtoul(tok[2], NULL, 10);
	policy = atoi(tok[3]);
	rng_x = strtoull(tok[4], NULL, 10) * 2862933555777941757ULL + 3037000493ULL;
	g_blocksize = strtoul(tok[5], NULL, 10);
	g_bc = atoi(tok[6]);
	verif_xxh_bits = atoi(tok[7]);
	g_codec_none = strcmp(tok[8], "none") == 0;
	g_codec_fail = strcmp(tok[8], "toyf") == 0;
	if (!g_codec_none && !g_codec_fail && strcmp(tok[8], "toy") != 0) { puts("bad-op"); return; }
	{
		long pl = hex_decode_tok(tok[9], &g_pre, 0);
		if (pl < 0) { puts("bad-op"); return; }
		g_prelen = (size_t)pl;
	}
	g_chunk = strtoul(tok[10], NULL, 10);
	nfiles = atoi(tok[11]);
	if (nfiles < 0 || nfiles > MAXFILES) { puts("bad-op"); free(g_pre); return; }
	for (i = 0; i < nfiles; ++i) {
		char *kd = isx ? strtok_r(NULL, " \n", &save) : "f", *a, *b;
		long n;
		wf[i].kind = kd ? kd[0] : '?';
		if (kd && kd[0] == 's' && kd[1] == 0) { wf[i].data = NULL; wf[i].size = 0; wf[i].flags = 0; continue; }
		a = strtok_r(NULL, " \n", &save);
		b = strtok_r(NULL, " \n", &save);
		if (!kd || (kd[0] != 'f' && kd[0] != 'm') || kd[1] != 0 || !a || !b || (n = hex_decode_tok(b, &wf[i].data, 0)) < 0) {
			puts("bad-op");
			while (i-- > 0) free(wf[i].data);
			free(g_pre);
			return;
		}
		wf[i].flags = (unsigned)strtoul(a, NULL, 10);
		wf[i].size = (size_t)n;
	}
	t = strtok_r(NULL, " \n", &save);
	if (t != NULL) { puts("bad-op"); goto out; }

	n_wcalls = 0; wlen = 0; if (wbuf) wbuf[0] = 0;
	n_sub = n_deq = n_done = in_pool = max_in_pool = lo_live = n_wfail = 0;
	n_overtake = n_fb_overtake = 0;
	fifo_ok = 1;
	ord_hash = 14695981039346656037ULL;
	g_rc = 0;
	olen = 0;
	vs_reset();
	steps0 = vs_steps();
	vs_spawn(client, NULL);
	for (;;) {
		int en[64], n = 0, nt = vs_nthreads(), live = 0;
		for (i = 0; i < nt && i < 64; ++i) {
			if (vs_kind(i) != VS_EXITED) live = 1;
			if (vs_enabled(i)) en[n++] = i;
		}
		if (vs_mutexes_held() != 0) mtx = 1;
		if (policy == 7 && rnd(4) == 0) {
			/* spurious wake-up of an unsignalled waiter, if there is one */
			int cand[64], m = 0;
			for (i = 0; i < nt && i < 64; ++i)
				if (vs_kind(i) == VS_COND && !vs_signalled(i)) cand[m++] = i;
			if (m > 0 && vs_step(cand[rnd((unsigned)m)], 1) == 0) { ++nspur; continue; }
		}
		if (n == 0) { dl = live; break; }
		vs_step(pick(policy, en, n, &rr), 0);
		if (++guard > 200000000UL) { dl = 2; break; }
	}
	if (dl) {
		printf("err deadlock # steps=%lu dl=%d mtx=%d sub=%zu fifo=%d ovt=%zu fbovt=%zu ord=%016llx maxq=%zu spur=%d wfail=%zu\n",
		       vs_steps() - steps0, dl, mtx, n_sub, fifo_ok, n_overtake, n_fb_overtake, (unsigned long long)ord_hash, max_in_pool, nspur, n_wfail);
	} else {
		printf("%s # steps=%lu dl=%d mtx=%d sub=%zu fifo=%d ovt=%zu fbovt=%zu ord=%016llx maxq=%zu spur=%d wfail=%zu\n", obuf ? obuf : "err nothing",
		       vs_steps() - steps0, dl, mtx, n_sub, fifo_ok, n_overtake, n_fb_overtake, (unsigned long long)ord_hash, max_in_pool, nspur, n_wfail);
	}
	vs_kill_all();
out:
	for (i = 0; i < nfiles; ++i) free(wf[i].data);
	free(g_pre);
	g_pre = NULL;
}

int main(void)
{
	while (fgets(line, sizeof(line), stdin)) {
		run_line();
		fflush(stdout);
	}
	return 0;
}
