#!/usr/bin/env python3
"""
Self-test of the tool-level C01 check: apply one mutation at a time to a scratch worktree of /repo and run the check on it.

    git -C /repo worktree add --detach /tmp/c01b_repo && cp /repo/config.h /tmp/c01b_repo/
    python3-vt docs/design/C01-mutations.py /tmp/c01b_repo [--base patched] [--tier quick] [name ...]
    git -C /repo worktree remove --force /tmp/c01b_repo

--base patched applies fixes/C01e-*.patch first (the known findings are then silent and every line is the mutation's).
Prints one line per mutation: caught (first VIOLATION line) / MISSED.  The result table is recorded in docs/design/C01.md.
"""
import os, re, subprocess, sys
from pathlib import Path

VERIF = Path(__file__).resolve().parent.parent.parent

M = [
 ("serialize-uid-gid-swapped-fifo", "lib/common/src/writer/serialize_fstree.c",
  "ret = sqfs_id_table_id_to_index(wr->idtbl, n->uid,", "ret = sqfs_id_table_id_to_index(wr->idtbl, S_ISFIFO(n->mode) ? n->gid : n->uid,"),
 ("serialize-mtime-truncated-31bit", "lib/common/src/writer/serialize_fstree.c",
  "inode->base.mod_time = n->mod_time;", "inode->base.mod_time = n->mod_time & 0x7FFFFFFF;"),
 ("serialize-nlink-off", "lib/common/src/writer/serialize_fstree.c",
  "			inode->data.file_ext.nlink = n->link_count;\n		} else {", "			inode->data.file_ext.nlink = n->link_count - 1;\n		} else {"),
 ("write-inode-devno-basic", "lib/sqfs/src/write_inode.c", ".devno = htole32(n->data.dev.devno),", ".devno = htole32(n->data.dev.devno & 0x0FFFFFFF),"),
 ("write-inode-devno-ext", "lib/sqfs/src/write_inode.c", ".devno = htole32(n->data.dev_ext.devno),", ".devno = htole32(n->data.dev_ext.devno >> 8 << 8),"),
 ("packfile-link-flag-dropped", "bin/gensquashfs/src/fstree_from_file.c", "	ent->flags = is_glob ? 0 : cb->flags;\n", ""),
 # ---- added with the review round (blind spots of review D, and the repairs that are in /repo now)
 ("serialize-gid-overflow-ignored", "lib/common/src/writer/serialize_fstree.c",
  "					&inode->base.gid_idx);\n	if (ret)\n		goto out;", "					&inode->base.gid_idx);"),
 ("serialize-uid-overflow-ignored", "lib/common/src/writer/serialize_fstree.c",
  "					&inode->base.uid_idx);\n	if (ret)\n		goto out;", "					&inode->base.uid_idx);"),
 ("inode-set-file-size-no-promotion", "lib/sqfs/src/inode.c", "		if (size > 0x0FFFFFFFFUL) {", "		if (0) {"),
 ("inode-set-block-start-no-promotion", "lib/sqfs/src/inode.c", "		if (location > 0x0FFFFFFFFUL) {", "		if (0) {"),
 ("xattr-id-table-4th-block-start-off", "lib/sqfs/src/xattr/xattr_writer_flush.c", "			locations[i++] = block;", "			{ locations[i] = block + (i >= 3 ? 2 : 0); i++; }"),
 ("stat-ext-device-devno", "bin/rdsquashfs/src/stat.c", "		devno = inode->data.dev_ext.devno;", "		devno = inode->data.dev_ext.devno & 0xFFFFF;"),
 ("hardlink-detection-off", "lib/common/src/dir_tree_iterator.c", "	if (!(cfg->flags & DIR_SCAN_NO_HARDLINKS)) {", "	if (0) {"),
 ("forced-uid-not-on-root", "bin/gensquashfs/src/mkfs.c", "		sqfs.fs.root->uid = opt.force_uid_value;", "		;"),
 ("forced-gid-not-on-implicit-dirs", "bin/gensquashfs/src/mkfs.c", "		sqfs.fs.defaults.gid = opt.force_gid_value;", "		;"),
 ("keep-xattr-empty-dropped-again", "bin/gensquashfs/src/apply_xattr.c", "		if (vallen >= 0) {", "		if (vallen > 0) {"),
 ("link-target-not-canonicalised", "lib/fstree/src/fstree.c", "			if (canonicalize_name(ptr)) {", "			if (0) {"),
 ("link-to-directory-accepted", "lib/fstree/src/hardlink.c", "	if (S_ISDIR(node->mode)) {\n		errno = EPERM;\n		return -1;\n	}", ""),
 ("packfile-mode-base-10", "bin/gensquashfs/src/fstree_from_file.c",
  "if (parse_uint_oct(line->args[2], -1, NULL, 0, 07777, &mode))", "if (parse_uint(line->args[2], -1, NULL, 0, 07777, &mode))"),
 ("dir-writer-257-entries-per-header", "lib/sqfs/src/dir_writer.c", "if (count == SQFS_MAX_DIR_ENT)", "if (count == SQFS_MAX_DIR_ENT + 1)"),
 ("dir-writer-255-entries-per-header", "lib/sqfs/src/dir_writer.c", "if (count == SQFS_MAX_DIR_ENT)", "if (count == SQFS_MAX_DIR_ENT - 1)"),
 ("dir-writer-name-limit-255", "lib/sqfs/src/dir_writer.c", "if (strlen(name) > 256)", "if (strlen(name) > 255)"),
 ("id-table-limit-0x10000", "lib/sqfs/src/id_table.c", "if (tbl->ids.used >= 0xFFFF)", "if (tbl->ids.used >= 0x10000)"),
 ("id-table-limit-0xFFFE", "lib/sqfs/src/id_table.c", "if (tbl->ids.used >= 0xFFFF)", "if (tbl->ids.used >= 0xFFFE)"),
 ("xattr-ool-reference-off", "lib/sqfs/src/xattr/xattr_writer_flush.c", "ool_locations[val_idx] = ref;", "ool_locations[val_idx] = ref + 1;"),
 ("xattr-ool-threshold-ge", "lib/sqfs/src/xattr/xattr_writer_flush.c", "return (strlen(val_str) / 2) > sizeof(sqfs_u64);", "return (strlen(val_str) / 2) >= sizeof(sqfs_u64);"),
 ("xattr-locations-index-stuck", "lib/sqfs/src/xattr/xattr_writer_flush.c", "			locations[i++] = block;", "			locations[i] = block;"),
 ("xattr-locations-bound-removed", "lib/sqfs/src/xattr/xattr_writer_flush.c", "if (block != locations[i - 1] && i < loc_count)", "if (block != locations[i - 1])"),
 ("frontend-full-last-block-kept", "lib/sqfs/src/block_processor/frontend.c",
  "	if (proc->blk_current->size == proc->max_block_size) {\n		err = enqueue_block(proc, proc->blk_current);\n		proc->blk_current = NULL;\n\n		if (err)\n			return err;\n	}\n\n	return 0;",
  "	return 0;"),
 ("backend-sparse-accounting", "lib/sqfs/src/block_processor/backend.c",
  "(*(blk->inode))->data.file_ext.sparse += blk->size;", "(*(blk->inode))->data.file_ext.sparse += 1;"),
 ("backend-sparse-block-size-word", "lib/sqfs/src/block_processor/backend.c",
  "err = set_block_size(blk->inode, blk->index, 0);", "err = set_block_size(blk->inode, blk->index + 1, 0);"),
 ("data-reader-last-block-not-clamped", "lib/sqfs/src/data_reader.c",
  "	if (stream->filesz < (sqfs_u64)stream->buf_used)\n		stream->buf_used = stream->filesz;\n\n	if (stream->blk_idx", "	if (stream->blk_idx"),
 ("data-reader-sparse-block-not-zeroed", "lib/sqfs/src/data_reader.c", "			memset(stream->buffer, 0, stream->buf_used);\n		} else if (disksz > rd->block_size)",
  "			memset(stream->buffer, 0, stream->buf_used / 2);\n		} else if (disksz > rd->block_size)"),
 ("describe-gid-dropped", "bin/rdsquashfs/src/describe.c", "	       n->uid, n->gid);", "	       n->uid, n->uid);"),
 ("describe-devno-minor", "bin/rdsquashfs/src/describe.c", "major(devno), minor(devno));", "major(devno), minor(devno) & 0xFFFF);"),
 ("glob-type-f-maps-to-symlinks", "bin/gensquashfs/src/glob.c", '{ "f", DIR_SCAN_NO_FILE },', '{ "f", DIR_SCAN_NO_SLINK },'),
 ("glob-star-mode-ignored", "bin/gensquashfs/src/fstree_from_file.c", "		glob_flags |= DIR_SCAN_KEEP_MODE;", "		glob_flags |= 0;"),
 ("set-uid-applied-to-gid", "bin/gensquashfs/src/options.c",
  "			opt->force_uid_value = strtol(optarg, NULL, 0);\n			opt->dirscan_flags &= ~DIR_SCAN_KEEP_UID;",
  "			opt->force_gid_value = strtol(optarg, NULL, 0);\n			opt->dirscan_flags &= ~DIR_SCAN_KEEP_GID;"),
 ("keep-time-ignored", "bin/gensquashfs/src/options.c", "			opt->dirscan_flags |= DIR_SCAN_KEEP_TIME;", "			opt->dirscan_flags |= 0;"),
 ("defaults-mode-ignored", "lib/common/src/fstree_cli.c", "sb->mode = S_IFDIR | (sqfs_u16)lval;", "sb->mode = S_IFDIR | 0755;"),
 ("timestamp-upper-clamp-removed", "lib/fstree/src/fstree.c", "	if (ts > 0x0FFFFFFFFLL)\n		return 0xFFFFFFFF;\n", ""),
 ("source-date-epoch-ignored", "lib/util/src/source_date_epoch.c", "	return tval;\nfail_ov:", "	return 0;\nfail_ov:"),
 ("unpack-chown-swapped", "bin/rdsquashfs/src/restore_fstree.c", "fchownat(AT_FDCWD, path, n->uid, n->gid,", "fchownat(AT_FDCWD, path, n->gid, n->uid,"),
 ("unpack-mtime-off", "bin/rdsquashfs/src/restore_fstree.c", "times[1].tv_sec = n->inode->base.mod_time;", "times[1].tv_sec = n->inode->base.mod_time / 2;"),
 ("stat-uid-shows-gid", "bin/rdsquashfs/src/stat.c", 'printf("UID: %u (index = %u)\\n", node->uid,', 'printf("UID: %u (index = %u)\\n", node->gid,'),
 ("list-gid-shows-uid", "bin/rdsquashfs/src/list_files.c", "			       max_gid_chars, n->gid,", "			       max_gid_chars, n->uid,"),
 ("xattr-file-hex-decode-short", "bin/gensquashfs/src/filemap_xattr.c", "		*size = ((*size) - 2) / 2;\n", "		*size = ((*size) - 2) / 2 - (*size > 20);\n"),
 ("hardlink-filter-off-in-packdir", "lib/sqfs/src/io/dir_hl.c", "	if (S_ISDIR(ent->mode))\n		return NULL;\n\n	tn = rbtree_lookup", "	if (S_ISDIR(ent->mode) || S_ISFIFO(ent->mode))\n		return NULL;\n\n	tn = rbtree_lookup"),
 ("symlink-target-truncated", "lib/fstree/src/fstree.c", "		n->data.target = ptr;", "		n->data.target = ptr; if (strlen(ptr) > 200) ptr[200] = '\\0';"),
]


def sh(cmd, **kw):
    return subprocess.run(cmd, stdout=subprocess.PIPE, stderr=subprocess.STDOUT, text=True, **kw)


def main():
    args = sys.argv[1:]
    repo = Path(args.pop(0))
    base, tier = "head", "quick"
    while args and args[0].startswith("--"):
        o = args.pop(0)
        if o == "--base":
            base = args.pop(0)
        elif o == "--tier":
            tier = args.pop(0)
    only = set(args)
    for m in M:
        name, path, old, new = m[:4]
        need = m[4] if len(m) > 4 else base
        if only and name not in only:
            continue
        sh(["git", "-C", str(repo), "checkout", "-q", "."])
        if (need == "patched" or base == "patched") and False:      # every C01e repair is in /repo now
            for p in sorted((VERIF / "fixes").glob("C01e-*.patch")):
                r = sh(["git", "-C", str(repo), "apply", str(p)])
                if r.returncode:
                    print("cannot apply", p.name, r.stdout)
        f = repo / path
        src = f.read_text()
        if src.count(old) < 1:
            print("%-40s SITE NOT FOUND" % name); continue
        f.write_text(src.replace(old, new, 1))
        env = dict(os.environ, VERIF_REPO=str(repo), VERIF_TIER=tier, VERIF_SEED=os.environ.get("VERIF_SEED", "0"))
        r = sh([sys.executable, str(VERIF / "tools" / "check"), "C01", "--tier", tier], env=env, cwd=str(VERIF))
        viol = [l for l in r.stdout.splitlines() if l.startswith("  what:")]
        nv = len([l for l in r.stdout.splitlines() if l.startswith("VIOLATION")])
        kn = len([l for l in r.stdout.splitlines() if l.startswith("KNOWN-FINDING")])
        if nv:
            print("%-40s caught (%d VIOLATION lines, exit %d): %s" % (name, nv, r.returncode, viol[0][8:260] if viol else ""))
        else:
            print("%-40s MISSED (exit %d, %d known-finding lines)%s" % (name, r.returncode, kn, "  [" + r.stdout.strip().splitlines()[-1][:150] + "]"))
        sys.stdout.flush()
    sh(["git", "-C", str(repo), "checkout", "-q", "."])


if __name__ == "__main__":
    main()
