import subprocess, sys, os, re
REPO="/tmp/c06_repo"
def sub(path, old, new, count=1):
    p=os.path.join(REPO,path); s=open(p).read()
    assert old in s, (path, old)
    s=s.replace(old,new,count); open(p,'w').write(s)
MUTS = {
 "M1-no-dup-check": lambda: sub("bin/rdsquashfs/src/rdsquashfs.c", "\t\t\tsqfs_free(path);\n\t\t\treturn -1;", "\t\t\tsqfs_free(path);"),
 "M2-no-sane-gate-create": lambda: sub("bin/rdsquashfs/src/restore_fstree.c", "static int create_node_dfs(const sqfs_tree_node_t *n, int flags)\n{\n\tconst sqfs_tree_node_t *c;\n\tchar *name;\n\tint ret;\n\n\tif (!is_filename_sane((const char *)n->name, true)) {", "static int create_node_dfs(const sqfs_tree_node_t *n, int flags)\n{\n\tconst sqfs_tree_node_t *c;\n\tchar *name;\n\tint ret;\n\n\tif (0) {"),
 "M3-no-sane-gate-filelist": lambda: sub("bin/rdsquashfs/src/fill_files.c", "\tif (!is_filename_sane((const char *)n->name, true)) {", "\tif (0) {"),
 "M4-no-sane-gate-attribs": lambda: sub("bin/rdsquashfs/src/restore_fstree.c", "\tif (!is_filename_sane((const char *)n->name, true))\n\t\treturn 0;", ""),
 "M5-no-dot-slash-tests-in-get_path": lambda: (sub("lib/common/src/dir_tree.c", "\t\tif (strchr((const char *)it->name, '/') != NULL)\n\t\t\treturn SQFS_ERROR_CORRUPTED;\n", ""), sub("lib/common/src/dir_tree.c", "\t\t\tif (clen == 1 || (clen == 2 && it->name[1] == '.'))\n\t\t\t\treturn SQFS_ERROR_CORRUPTED;", "\t\t\t;")),
 "M6-open-without-O_EXCL": lambda: sub("bin/rdsquashfs/src/restore_fstree.c", "O_WRONLY | O_CREAT | O_EXCL", "O_WRONLY | O_CREAT"),
 "M7a-utimensat-follow": lambda: sub("bin/rdsquashfs/src/restore_fstree.c", "utimensat(AT_FDCWD, path, times, AT_SYMLINK_NOFOLLOW)", "utimensat(AT_FDCWD, path, times, 0)"),
 "M7b-fchownat-follow": lambda: sub("bin/rdsquashfs/src/restore_fstree.c", "n->uid, n->gid,\n\t\t\t     AT_SYMLINK_NOFOLLOW)", "n->uid, n->gid,\n\t\t\t     0)"),
 "M8-chmod-on-symlinks": lambda: sub("bin/rdsquashfs/src/restore_fstree.c", "if (flags & UNPACK_CHMOD && !S_ISLNK(n->inode->base.mode)) {", "if (flags & UNPACK_CHMOD) {"),
 "M9-setxattr-follow": lambda: sub("bin/rdsquashfs/src/restore_fstree.c", "ret = lsetxattr(path,", "ret = setxattr(path,"),
 "M10-gates-create+getpath": lambda: (MUTS["M2-no-sane-gate-create"](), MUTS["M5-no-dot-slash-tests-in-get_path"]()),
 "M11-mkdir-tolerates-and-no-dup+nul": lambda: sub("bin/rdsquashfs/src/rdsquashfs.c", "\t\tif (strcmp((const char *)it->name,\n\t\t\t   (const char *)it->next->name) == 0) {", "\t\tif (0) {"),
}
which = sys.argv[1:] or list(MUTS)
for m in which:
    subprocess.run(["git","-C",REPO,"checkout","-q","."],check=True)
    MUTS[m]()
    env=dict(os.environ, VERIF_REPO=REPO, VERIF_SEED=os.environ.get("VERIF_SEED","0"))
    r=subprocess.run(["tools/check","C06","--tier","quick"],cwd="/tmp/vw_C06",env=env,stdout=subprocess.PIPE,stderr=subprocess.STDOUT,text=True)
    lines=r.stdout.splitlines()
    v=[l for l in lines if l.startswith("VIOLATION")]
    esc=sum(1 for l in lines if "changed objects outside" in l)
    cor=sum(1 for l in lines if "model and rdsquashfs disagree" in l)
    first=[l.strip()[:260] for l in lines if l.strip().startswith("what:")][:2]
    print("%-40s exit=%d violations=%d (escape %d, correspondence %d)" % (m, r.returncode, len(v), esc, cor))
    for f in first: print("     ", f)
subprocess.run(["git","-C",REPO,"checkout","-q","."],check=True)
