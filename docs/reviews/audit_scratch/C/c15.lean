import Sqfs.Props.C15
open Sqfs.Xfrm Sqfs.Xfrm.Spec Sqfs.C15

def P : Toy.Params := ⟨1, 0, 2⟩
def a : Bytes := [65, 66, 67]
def b : Bytes := [68, 69]
theorem hms : Members Toy.decode [Toy.encode a, Toy.encode b] [a, b] :=
  .cons (by decide) (.cons (by decide) .nil)
def script : List Nat := [1, 0, 2, 1, 3]
def ops : List (Nat × Nat) := [(4, 3), (2, 1), (4, 3), (1,1), (4,4), (4,4), (3,2)]
theorem hw : ∀ op ∈ ops, 0 < op.1 := by decide
-- truncated tail
def t : Bytes := (Toy.encode [70, 71]).take 3
def t' : Bytes := (Toy.encode [70, 71]).drop 3
theorem ht : t ≠ [] := by decide
theorem ht' : t' ≠ [] := by decide
theorem hcut : Toy.decode (t ++ t') = some [70, 71] := by decide
-- dead tail
def cdead : Bytes := 2 :: [9, 9]
theorem hdead : Dead Toy.decode cdead := toy_dead_example [9, 9]

def oops : List OOp := [.append [1,2,3], .append [4,5,6,7,8,9], .flush, .flush, .append [], .append [10], .flush, .append [11, 12]]

-- ostream
example := ostream_transparent (Toy.encContract P) (bufsz := 4) (by decide) oops
example : (opsSegs [] [] oops).1.length = 2 := by decide
example := ostream_transparent_single (Toy.encContract P) (bufsz := 4) (by decide) [[1,2,3],[],[4,5,6,7,8,9]]
example := ostream_flush_terminates (Toy.encContract P) (bufsz := 4) (by decide) oops
-- istream
example := istream_transparent_stream (streamOfDec (Toy.decContract P)) (bufsz := 4) (by decide) hms script ops hw
example := istream_transparent (Toy.decContract P) (bufsz := 4) (by decide) hms script ops hw
example := truncated_is_error_stream (streamOfDec (Toy.decContract P)) (bufsz := 4) (by decide) hms ht ht' hcut script ops hw
example := truncated_is_error (Toy.decContract P) (bufsz := 4) (by decide) hms ht ht' hcut script ops hw
example := corrupt_is_error (streamOfDecErr (Toy.decContract P) (Toy.decErrContract P)) (bufsz := 4) (by decide) hms hdead script ops hw
-- process_data_meets_contract: each of the five parts has inhabited hypotheses
example := (process_data_meets_contract (Dec := Toy.decode) (L := Toy.encLib P .gzip) (b := .gzip)).1 (Toy.encLibContract P .gzip)
example := (process_data_meets_contract (Dec := Toy.decode) (L := Toy.decLib P .bzip2) (b := .bzip2)).2.1 (Toy.decLibContract P .bzip2)
example := (process_data_meets_contract (Dec := Toy.decode) (L := Toy.decLib P .xz) (b := .xz)).2.2.1 (Toy.encZLibContract P)
example := (process_data_meets_contract (Dec := Toy.decode) (L := Toy.decLib P .xz) (b := .xz)).2.2.2.1 (Toy.decZLibContract P)
example := (process_data_meets_contract (Dec := Toy.decode) (L := Toy.decLib P .xz) (b := .xz)).2.2.2.2 (Toy.decContract P)
-- zstd
example := zstd_istream_transparent (Toy.decZLibContract P) (bufsz := 3) (by decide) hms script ops hw
example := zstd_truncated_is_error (Toy.decZLibContract P) (bufsz := 3) (by decide) hms ht ht' hcut script ops hw
example := backend_istream_transparent (Toy.decLibContract P .gzip) (bufsz := 3) (by decide) hms script ops hw
example := backend_truncated_is_error (Toy.decLibContract P .xz) (bufsz := 3) (by decide) hms ht ht' hcut script ops hw
example := backend_corrupt_is_error (Toy.decLibContract P .bzip2) (Toy.decLibErrContract P .bzip2) (bufsz := 3) (by decide) hms hdead script ops hw
example := zstd_corrupt_is_error (Toy.decZLibContract P) (Toy.decZLibErrContract P) (bufsz := 3) (by decide) hms hdead script ops hw
example := toy_error_conventions_satisfiable P .gzip
example := toy_dead_example [9, 9]
example := backend_ostream_transparent (Toy.encLibContract P .gzip) (bufsz := 4) (by decide) [[1,2,3],[],[4,5,6,7,8,9]]
-- io errors
example := ostream_failure_model_agrees (C := Toy.encoder P) 4 1000 oops ⟨oInit (Toy.encoder P), 0⟩
-- a run that comes back ok although an append failure is scheduled (later than the run reaches)
def E1 : OEnv := { appendFail := some (50, -5) }
def s0 : OStateE Toy.Enc := ⟨oInit (Toy.encoder P), 0⟩
#eval (match oRunE (Toy.encoder P) 4 1000 E1 s0 oops with | some (.ok s') => some s'.appends | _ => none)
#eval (match oRunE (Toy.encoder P) 4 1000 {appendFail := some (3,-5)} s0 oops with | some (.ok s') => some (s'.appends, 0) | some (.error e) => some (0, e.1) | _ => none)
example : True := by
  cases h : oRunE (Toy.encoder P) 4 1000 E1 s0 oops with
  | none => trivial
  | some r => cases r with
    | error e => trivial
    | ok s' =>
      have := ostream_write_error_reported (C := Toy.encoder P) 4 1000 E1 (k := 50) (e := -5) rfl (by decide) oops s0 s' h (by decide)
      trivial
def E2 : OEnv := { flushFail := some (50, -5) }
example : True := by
  cases h : oRunE (Toy.encoder P) 4 1000 E2 s0 oops with
  | none => trivial
  | some r => cases r with
    | error e => trivial
    | ok s' =>
      have := ostream_flush_error_reported (C := Toy.encoder P) 4 1000 E2 (k := 50) (e := -5) rfl (by decide) oops s0 s' h (by decide)
      trivial
example : (match oRunE (Toy.encoder P) 4 1000 E1 s0 oops with | some (.ok _) => true | _ => false) = true := by decide
example : (match oRunE (Toy.encoder P) 4 1000 E2 s0 oops with | some (.ok _) => true | _ => false) = true := by decide
def ist (f : Option (Nat × Int)) : IStateE Toy.Dec := ⟨Toy.decFresh, [], 0, ⟨⟨Toy.encode a ++ Toy.encode b, script⟩, 0, f⟩⟩
example := istream_failure_model_agrees (C := Toy.decoder P) 4 1000 ops (ist none) [] rfl
example : (match iReadE (Toy.decoder P) 4 1000 (ist (some (50, -3))) ops [] with | some (.ok _) => true | _ => false) = true := by decide
example : True := by
  cases h : iReadE (Toy.decoder P) 4 1000 (ist (some (50, -3))) ops [] with
  | none => trivial
  | some r => cases r with
    | error e => trivial
    | ok r =>
      have := istream_read_error_reported (C := Toy.decoder P) 4 1000 (k := 50) (e := -3) (by decide) ops (ist (some (50, -3))) [] r rfl h (by decide)
      trivial
-- probe
example := probe_spec ([0x1f, 0x8b, 8, 0] ++ List.replicate 600 0)
#eval openStreamCodec ([0x1f, 0x8b, 8, 0] ++ List.replicate 600 0)
#eval tarProbe (List.replicate 257 65 ++ [0x75,0x73,0x74,0x61,0x72,0] ++ List.replicate 300 0)
example := toy_library_meets_convention P .gzip
example := toy_encoder_meets_contract P
example := toy_decoder_meets_contract P
example := toy_decode_encode a

#print axioms ostream_transparent
#print axioms ostream_transparent_single
#print axioms ostream_flush_terminates
#print axioms istream_transparent_stream
#print axioms istream_transparent
#print axioms truncated_is_error_stream
#print axioms truncated_is_error
#print axioms corrupt_is_error
#print axioms process_data_meets_contract
#print axioms zstd_istream_transparent
#print axioms zstd_truncated_is_error
#print axioms backend_istream_transparent
#print axioms backend_truncated_is_error
#print axioms backend_corrupt_is_error
#print axioms zstd_corrupt_is_error
#print axioms toy_error_conventions_satisfiable
#print axioms toy_dead_example
#print axioms backend_ostream_transparent
#print axioms ostream_failure_model_agrees
#print axioms ostream_write_error_reported
#print axioms ostream_flush_error_reported
#print axioms istream_failure_model_agrees
#print axioms istream_read_error_reported
#print axioms probe_spec
#print axioms toy_library_meets_convention
#print axioms toy_encoder_meets_contract
#print axioms toy_decoder_meets_contract
#print axioms toy_decode_encode
