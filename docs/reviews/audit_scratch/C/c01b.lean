import Sqfs.Props.C01
open Sqfs.Enc Sqfs.Consts Sqfs.C01
open Sqfs.IdTable Sqfs.DirWriter
#eval getType 0o100644
set_option maxRecDepth 100000
#eval prefixId (prefixUser ++ [0x61])
example := representable_accepted.2.1 (List.replicate 256 0x61) 5 0 0o100644 2 (by decide) (by decide) (by decide) (by decide)
example := representable_accepted.2.2 {} (prefixUser ++ [0x61]) [1] 0 (by decide)
