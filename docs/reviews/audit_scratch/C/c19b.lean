import Sqfs.Props.C19
open Sqfs.Obj Sqfs.Obj.Kinds Sqfs.C19
set_option maxRecDepth 100000

def H : Heap := (construct envHeap .dirReader 0 1).1

-- copy_wellformed / _all: dir reader copy in H with fuel = nobj
example : True := by
  cases ho : H.objs 4 with
  | none => exact absurd ho (by decide)
  | some o =>
  have e : o = (H.objs 4).get (by decide) := by simp [ho]
  rcases hc : sqfsCopy desc 5 H 4 with ⟨h', r⟩
  cases r with
  | none => trivial
  | some c =>
    have := copy_wellformed desc 5 H h' 4 c o ho (by subst e; decide) (by subst e; decide) hc
    have := copy_wellformed_all .dirReader 5 H h' 4 c o ho (by subst e; decide) (by subst e; decide) hc
    trivial
example : (sqfsCopy desc 5 H 4).2 = some 7 := by decide

example := copy_equiv_idTable ⟨128, [5, 7]⟩ [.add 7, .add 9, .get 2, .get 9]
example := copy_equiv_fragTable ⟨128, [(96, 10), (106, 20)]⟩ [.append 1 2, .lookup 2, .set 0 5 6, .size, .lookup 0]
-- is idCopy different from identity?
#eval (idCopy ⟨128, [5, 7]⟩ : IdTable)

theorem Hbal : ∃ U, Balanced H U ∧ U 0 = 1 ∧ U 1 = 1 ∧ U 4 = 1 ∧ (∀ x, x ≠ 0 → x ≠ 1 → x ≠ 4 → U x = 0) := by
  obtain ⟨U, hb, h0, h1⟩ := envHeap_balanced
  have e4 : (construct envHeap .dirReader 0 1).2 = 4 := by decide
  have hU4 : U 4 = 0 := (hb.dead 4 (Or.inl (by decide))).1
  have b3 := constructed_balanced .dirReader envHeap U 0 1 hb (by decide) (by decide)
  simp only [e4] at b3
  refine ⟨_, b3, by simp [h0], by simp [h1], by simp [hU4], ?_⟩
  intro x x0 x1 x4
  simp only [x4, if_false]
  by_cases hx : x < envHeap.nobj
  · have : envHeap.nobj = 2 := by decide
    omega
  · cases hv : envHeap.objs x with
    | none => exact (hb.dead x (Or.inl hv)).1
    | some _ => exact absurd (hb.bound x (by simp [hv])) hx

def evs : List Ev := [.op 4 (.realloc 0 ⟨8, 8, 1⟩), .grab 4, .op 4 (.realloc 0 ⟨16, 9, 2⟩), .drop 4, .op 4 (.store 0 5),
      .op 4 (.release 0), .drop 4]
example : True := by
  obtain ⟨U, hb, h0, h1, h4, hz⟩ := Hbal
  -- no_leak: drop everything the user holds: 4, 0, 1 in an order that releases the file first
  have cnt : ∀ x, [0, 4, 1].count x = U x := by
    intro x
    by_cases a : x = 0
    · subst a; simp [h0]
    · by_cases b : x = 1
      · subst b; simp [h1]
      · by_cases c : x = 4
        · subst c; simp [h4]
        · have := hz x a b c
          have : ¬ 0 = x := fun e => a e.symm
          have : ¬ 1 = x := fun e => b e.symm
          have : ¬ 4 = x := fun e => c e.symm
          simp [*]
  have t1 := no_leak H U [0, 4, 1] hb cnt
  have t2 := grab_balanced H U 4 hb (by decide)
  have t3 := copy_fail_restores H U 4 2 hb (by decide) (by decide)
  have ha : Admissible U evs := by simp [evs, Admissible, Ev.user, Ev.target, h4]
  have t4 := ops_release_safe H U evs hb ha
  cases h0o : H.objs 0 with
  | none => exact absurd h0o (by decide)
  | some o0 =>
  have t5 := copy_independent_mixed H U evs 0 o0 hb ha (by decide) (by omega) h0o
  cases h4o : H.objs 4 with
  | none => exact absurd h4o (by decide)
  | some o4 =>
  have : some 2 ∈ o4.bufs := by
    have e : o4 = (H.objs 4).get (by decide) := by simp [h4o]
    subst e; decide
  cases h2o : H.objs 2 with
  | none => exact absurd h2o (by decide)
  | some o2 =>
  have t6 := copy_buffers_disjoint H U 4 2 2 o4 o2 hb h4o h2o (by decide) this
  trivial
#eval (H.objs 2).map (fun o => (repr o.kind, o.bufs))

-- readers
open Sqfs.C19R in
example := copy_equiv_dataReader true ⟨10, fun i => UInt8.ofNat (i + 1), fun _ => false⟩ Sqfs.MetaReader.toyUnc toyUnc_bounded 8 []
  [.read ⟨6, 2, 0, 0, [16777222]⟩ 0 6] [.read ⟨6, 2, 0, 0, [16777222]⟩ 2 3, .read ⟨6, 2, 0, 0, [16777222]⟩ 0 6]
open Sqfs.C19R in
#eval drAnswers true ⟨10, fun i => UInt8.ofNat (i + 1), fun _ => false⟩ Sqfs.MetaReader.toyUnc (Sqfs.DataReader.run true ⟨10, fun i => UInt8.ofNat (i + 1), fun _ => false⟩ Sqfs.MetaReader.toyUnc (Sqfs.DataReader.fresh 8 []) [.read ⟨6, 2, 0, 0, [16777222]⟩ 0 6]) [.read ⟨6, 2, 0, 0, [16777222]⟩ 2 3, .read ⟨6, 2, 0, 0, [16777222]⟩ 0 6]
example := table_fill_is_adds 300 (by decide)

section rb
open Sqfs.Rb
def cfg : Cfg := ⟨4, 8, 8⟩
def ltf : List UInt8 → List UInt8 → Bool := fun a b => dcCmp a b == .lt
def kvs : List (List UInt8 × List UInt8) := [(leBytes 4 5, leBytes 8 0x571f80d44), (leBytes 4 7, leBytes 8 0x123456789abc), (leBytes 4 2, leBytes 8 0x60)]
def tr : Tree := build cfg ltf kvs
example := rbtree_built_wellformed 4 8 cfg (by decide) ltf kvs Store.empty
example : True := by
  obtain ⟨hwf, _, _, hs⟩ := rbtree_built_wellformed 4 8 cfg (by decide) ltf kvs Store.empty
  have t1 := rbtree_copy_equiv cfg (writeTree Store.empty tr).1 (writeTree Store.empty tr).2 tr 5 hwf hs (by decide)
  have t2 := copy_equiv_dirCache cfg (by decide) (writeTree Store.empty tr).1 (writeTree Store.empty tr).2 tr 5 hwf hs (by decide)
  trivial
end rb
open Sqfs.C19U in
example := array_copy_equiv 2 ⟨128, [[1,2],[3,4]]⟩ [.app [5,6], .get 2, .set 0 [9,9], .used, .get 0]
open Sqfs.C19U in
example := strtable_copy_equiv [⟨[97], 1⟩, ⟨[98, 99], 2⟩] [.index [97], .str 1, .ref 0, .unref 1, .count 1]
open Sqfs.C19R in
example (m : Sqfs.MetaReader.MR) : mrCopy m = m := rfl
open Sqfs.C19U in
example (t : StrTable) : strCopy t = t := strCopy_eq t

#print axioms copy_wellformed
#print axioms copy_wellformed_all
#print axioms copy_equiv_idTable
#print axioms copy_equiv_fragTable
#print axioms copy_balanced
#print axioms copy_fail_safe
#print axioms release_safe
#print axioms release_safe_either_order
#print axioms copy_then_release_restores
#print axioms no_leak
#print axioms refcount_exact
#print axioms copy_equiv
#print axioms copy_same_buffer_sizes
#print axioms copy_independent
#print axioms copy_buffers_disjoint
#print axioms constructed_balanced
#print axioms grab_balanced
#print axioms copy_fail_restores
#print axioms ops_release_safe
#print axioms copy_independent_mixed
#print axioms copy_equiv_dataReader
#print axioms copy_equiv_metaReader
#print axioms table_fill_is_adds
#print axioms rbtree_copy_equiv
#print axioms rbtree_built_wellformed
#print axioms copy_equiv_dirCache
#print axioms array_copy_equiv
#print axioms strtable_copy_equiv
