import Sqfs.Props.C14
open Sqfs Sqfs.Writer Sqfs.Consts Sqfs.Spec.Writer Sqfs.C14
set_option maxRecDepth 100000

theorem hShape : shapeCheck exLog = true := by decide
theorem hOk : (run exRun).err = none := by decide
theorem hV : ValidCfg exRun := ⟨⟨12, by decide, by decide, rfl⟩, by decide, by decide⟩
theorem hSz : (preFinal exRun).1.size < 2 ^ 64 := by decide

example := C14.shape_prefix_rejected exLog hShape 5 (by decide)
example := C14.shape_prefix_rejected exLog hShape 3 (by decide)
example := C14.shape_suffix_complete exLog hShape 6 (by decide)
example := C14.shape_crash_safe exLog hShape
-- superInit ok
theorem hSI : ∃ sup, superInit exRun.blockSize exRun.mtime exRun.compId = .ok sup := by
  have : (superInit exRun.blockSize exRun.mtime exRun.compId).toBool = true := by decide
  cases h : superInit exRun.blockSize exRun.mtime exRun.compId with
  | ok s => exact ⟨s, rfl⟩
  | error e => rw [h] at this; simp [Except.toBool] at this
example : True := by
  obtain ⟨sup, h⟩ := hSI
  have := super_region_invariant exRun sup h
  have := provisional_fields _ _ _ sup h
  trivial
example := prefix_rejected exRun 15 (by decide)
example := prefix_rejected exRun 7 (by decide)
example := suffix_complete exRun hOk 16 (by decide)
example := suffix_accepted exRun hV hOk hSz 16 (by decide)
example := crash_safe exRun hOk
example := final_super_last exRun hV hOk hSz
example := run_shape exRun hOk hSz
-- is the prefix statement non-trivial? the readers accept the final thing
example : readerAccepts (image (run exRun).ops) = true := by decide
-- a failing run
#eval (run {exRun with ids := []}).err
#eval (run {exRun with blockSize := 5}).err
#eval kFinal {exRun with blockSize := 5}
#eval (run {exRun with blockSize := 5}).ops.length

#print axioms shape_prefix_rejected
#print axioms shape_suffix_complete
#print axioms shape_crash_safe
#print axioms super_region_invariant
#print axioms provisional_fields
#print axioms prefix_rejected
#print axioms suffix_complete
#print axioms suffix_accepted
#print axioms crash_safe
#print axioms final_super_last
#print axioms run_shape
