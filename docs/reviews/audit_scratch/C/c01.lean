import Sqfs.Props.C01
open Sqfs.Enc Sqfs.Consts Sqfs.C01
open Sqfs.MetaWriter (Codec)
set_option maxRecDepth 100000

-- make_extended_basic_inverse clauses 3, 4
example := make_extended_basic_inverse.2.2.1 (Inode.ipc ⟨0o10644, 0, 0, 0, 1⟩ false 1)
example := make_extended_basic_inverse.2.2.2 (.fileExt ⟨0o100644, 1, 2, 3, 4⟩ 96 100 0 1 NONE32 NONE32 NONE32 [100]) (by decide)
-- is (2)'s first side condition a real obligation: dirExt
example := make_extended_basic_inverse.2.1 (.dirExt ⟨0o40755, 0, 0, 1, 9⟩ 3 100 0 1 0 100 NONE32 [])
  (by decide) (by decide) (fun _ _ _ _ _ _ _ _ _ h => by cases h; exact ⟨rfl, rfl⟩) (fun _ _ _ _ _ _ _ _ _ h => by cases h)
-- selection clauses 2, 3
example := (selection_minimal_and_safe ⟨0o120777, 9, 4, 2, 3⟩).2.1 0 [0x2f, 0x61] _ rfl
example := (selection_minimal_and_safe ⟨0o20600, 9, 4, 1, NONE32⟩).2.1 0x501 [] _ rfl
example := (selection_minimal_and_safe ⟨0o40755, 9, 4, 3, 5⟩).2.2 (.dirExt ⟨0, 0, 0, 0, 0⟩ 1 100 0 1 0 100 NONE32 []) (by decide) (by decide)
example := (selection_minimal_and_safe ⟨0o40755, 9, 4, 3, NONE32⟩).2.2 (.dir ⟨0, 0, 0, 0, 0⟩ 0 1 100 100 1) (by decide) (fun _ => rfl)
-- xattr_refs_ok
example := xattr_refs_ok.1 44 (by decide)
example := xattr_refs_ok.2 _ _ (Sqfs.Enc.run_blocksOk (fun x => if x = [1, 1, 1, 1] then some [9] else none) [[1, 1, 1, 1], [2, 3]]).1 (by decide)
-- xattr_loc 2
def wF : XWriter := ⟨[prefixUser ++ [0x61], prefixTrusted ++ [0x62]],
      [([1, 2, 3, 4, 5, 6, 7, 8, 9], 4), ([], 1), ([5], 0)], [(0, 0), (0, 1), (1, 0)], 3, [(0, 1), (1, 2)]⟩
example := xattr_loc_index_lt_count.2 (fun _ => none) rawRef wF (by decide)
example := xattr_loc_index_lt_count.1 (fun k => k / 512 * 8194) 1025 (by decide)
-- refuse / accept
open Sqfs.IdTable Sqfs.DirWriter in
example := refuse_unrepresentable.2.1 (List.replicate 257 0x61) 5 0 0o100644 (Or.inr (Or.inl (by decide)))
open Sqfs.IdTable Sqfs.DirWriter in
example := refuse_unrepresentable.2.2 {} [0x66, 0x6f, 0x6f] [1] (by decide)
open Sqfs.IdTable Sqfs.DirWriter in
example := representable_accepted.2.1 (List.replicate 256 0x61) 5 0 0o100644 2 (by decide) (by decide) (by decide) (by decide)
open Sqfs.IdTable Sqfs.DirWriter in
example := representable_accepted.2.2 {} (prefixUser ++ [0x61]) [1] 0 (by decide)
-- file content with a compressing codec
open Sqfs.Pack in
theorem cdcOk : (⟨fun x => if x = [7, 7, 7, 7] then some [9] else none, fun z => if z = [9] then [7, 7, 7, 7] else z⟩ : Sqfs.Pack.Codec).Ok := by
  constructor
  · intro x z h; simp only at h; split at h
    · cases h; subst x; decide
    · cases h
  · intro x z h; simp only at h; split at h
    · cases h; subst x; decide
    · cases h
open Sqfs.Pack in
example := file_content_roundtrip ⟨4, 96, _, fun _ => 0⟩ (by decide) cdcOk
  [⟨{}, [7, 7, 7, 7, 0, 0, 0, 0, 5]⟩, ⟨{}, [7, 7, 7, 7, 0, 0, 0, 0, 5]⟩, ⟨{dontDedup := true}, [7,7,7,7,1]⟩] 2 (by decide)
-- table round trip with compressing codec
example := table_roundtrip exCodecOk [0xEE, 0xEE] [1, 1, 1, 1] (by decide)
#eval (writeTableAt (fun x => if x = [1, 1, 1, 1] then some [9] else none) [0xEE, 0xEE] [1, 1, 1, 1]).1

#print axioms inode_roundtrip
#print axioms exWfFile
#print axioms exWfDir
#print axioms exWfSlink
#print axioms serialize_establishes_wf
#print axioms make_extended_basic_inverse
#print axioms selection_minimal_and_safe
#print axioms file_size_start_no_truncation
#print axioms dir_listing_roundtrip
#print axioms dir_index_points_at_headers
#print axioms meta_stream_roundtrip
#print axioms exCodecOk
#print axioms codecOk_none
#print axioms meta_ref_roundtrip
#print axioms table_roundtrip
#print axioms id_table_roundtrip
#print axioms frag_table_roundtrip
#print axioms export_table_roundtrip
#print axioms super_roundtrip
#print axioms exSuperValid
#print axioms xattr_roundtrip
#print axioms xattr_refs_ok
#print axioms xattr_input_roundtrip
#print axioms xattr_record_index
#print axioms xattr_loc_index_lt_count
#print axioms file_content_roundtrip
#print axioms refuse_unrepresentable
#print axioms representable_accepted
#print axioms parse_serialize_partial
#print axioms exampleNode_ok
#print axioms parse_serialize
#print axioms exampleTree_reads_back
