import Sqfs.Props.C13
open Sqfs.FailStop Sqfs.C13

-- helpers
theorem af (k : Nat) : allFalse k (single k) := by
  intro i hi; simp [single, List.getD_eq_getElem?_getD, List.getElem?_append, hi]
theorem gt (k : Nat) : (single k).getD k false = true := by
  simp [single, List.getD_eq_getElem?_getD]

-- run_checked
example := run_checked current_allChecked exCfg (single 24)
example := run_checked fixed_allChecked exTar (single 5)
-- status_success_only_at_end : hypothesis status = 0
example := status_success_only_at_end .current exCfg [] (by decide)
example := status_success_only_at_end .snapshot exTar [false,false] (by decide)
-- status_success_no_fault
example := status_success_no_fault current_allChecked exCfg [] (by decide)
example := status_success_no_fault fixed_allChecked exTar [false] (by decide)
-- cleanup_unlinks_the_stored_name
example := cleanup_unlinks_the_stored_name .current exCfg (single 24) (by decide) (by decide)
example : (run .current exCfg (single 24)).out = .present := by decide
example := cleanup_unlinks_the_stored_name .fixed exCfg (single 24) (by decide) (by decide)
-- cleanup_not_reached_only_in_init
example := cleanup_not_reached_only_in_init .fixed exCfg (single 7) (by decide)
example := cleanup_not_reached_only_in_init .current exTar (single 1) (by decide)
-- failure_never_leaves_output
example := failure_never_leaves_output exCfg (single 24) (by decide)
example := failure_never_leaves_output exCfg (single 7) (by decide)
-- partial
example := failure_never_leaves_output_partial .current rfl { exCfg with relOut := false } (single 24) (Or.inl rfl) (by decide)
example := failure_never_leaves_output_partial .current rfl { exCfg with packDir := false } (single 24) (Or.inr rfl) (by decide)
-- diagnostic
example := failure_has_diagnostic .current rfl exCfg (single 30) (by decide)
#eval (run .current exCfg (single 30)).trace.failed
-- exit0
example := exit0_output_eq_fault_free current_allChecked exCfg [false,false] (by decide)
example := exit0_output_eq_fault_free current_allChecked exCfg (single 100) (by decide)
-- first_failure_stops
example := first_failure_stops fixed_allChecked exCfg (single 25) 25 (by decide) (af 25) (gt 25)
example := first_failure_stops current_allChecked exTar (single 3) 3 (by decide) (af 3) (gt 3)
-- readers
example := reader_status_success_no_fault { sqfs2tar := true, compressed := true, nentries := 3 } [] (by decide)
example := reader_first_failure_stops { sqfs2tar := false, op := .cat, nsplice := 3 } (single 14) 14 (by decide) (af 14) (gt 14)
-- BP
theorem hvcur : ∀ p, BP.checked .current p = true := by intro p; cases p <;> rfl
example := blockproc_error_propagates hvcur 4 (.beginFile true false false false) {} [true] (by decide)
example := blockproc_error_propagates hvcur 4 .sync
    { backlog := 1, pool := [{ size := 0, last := true, dupBlocks := true }] } [false, false, true] (by decide)
example := blockproc_session_propagates hvcur 4 [.beginFile true false false false, .append 1 false false, .sync] {} [false,false,true]
#eval (BP.session .current 4 [.beginFile true false false false, .append 5 false false, .endFile, .sync] {} [false,false,false,true])
-- (membership shown by the #eval above: second result has faulted := true, ok := false)

#print axioms run_checked
#print axioms status_success_only_at_end
#print axioms status_success_no_fault
#print axioms cleanup_unlinks_the_stored_name
#print axioms cleanup_not_reached_only_in_init
#print axioms failure_never_leaves_output
#print axioms failure_never_leaves_output_partial
#print axioms failure_has_diagnostic
#print axioms exit0_output_eq_fault_free
#print axioms first_failure_stops
#print axioms reader_status_success_no_fault
#print axioms reader_first_failure_stops
#print axioms blockproc_error_propagates
#print axioms blockproc_session_propagates
