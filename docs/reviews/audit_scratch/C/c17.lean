import Sqfs.Props.C17
open Sqfs.Sort Sqfs.Pack Sqfs.C17
set_option maxRecDepth 100000

def fl : List FileEnt := [{ path := [97], priority := 7 }, { path := [98], priority := -5 }, { path := [99], priority := 7, flags := 1 }]
example := sort_perm fl
example := sort_sorted fl
example := sort_stable fl 7
def mtc : Matcher := fun _ pat path => pat == [42] || pat == path
def ls : List SortLine := [⟨-5, {}, [98]⟩, ⟨7, { doGlob := true, flags := 1 }, [42]⟩, ⟨-9, {}, [97]⟩]
example := first_match_wins mtc ls [[97],[98],[99]] (by decide)
example := exact_line_matches_one mtc ⟨-5, {}, [98]⟩ rfl [{ path := [97] }, { path := [98], matched := true }, { path := [98] }, { path := [98] }]
example : applyLine mtc ⟨-5, {}, [98]⟩ [{ path := [97] }, { path := [98], matched := true }, { path := [98] }, { path := [98] }] ≠ [{ path := [97] }, { path := [98], matched := true }, { path := [98] }, { path := [98] }] := by decide
example := quoted_name_decodes [97, 34, 92, 32, 47, 98]
#eval decodeFilename true (QUOTE :: (escapeName [97, 34, 92, 32, 47, 98] ++ [QUOTE]))
#eval decodeFilename true (QUOTE :: (escapeName [46, 46, 47, 98] ++ [QUOTE]))

section tree
open Sqfs.C17SortTree
open Sqfs.FsTree hiding FileEnt sortFileList sortFiles
def R : Result := { tree := default, inodes := [[[98]], [[97]], []], files := [[[97]], [[98]]] }
example : True := by
  cases h : fstreeSortFiles true (fun _ _ _ => false) [[45, 53, 32, 98]] R with
  | error e => trivial
  | ok s => have := directives_preserve_tree true (fun _ _ _ => false) [[45, 53, 32, 98]] R s h; trivial
example : (fstreeSortFiles true (fun _ _ _ => false) [[45, 53, 32, 98]] R).toBool = true := by decide
end tree

-- specPack
def cdc : Codec := ⟨fun x => if x = [7, 7, 7, 7] then some [9] else none, fun z => if z = [9] then [7, 7, 7, 7] else z⟩
theorem cdcOk : cdc.Ok := by
  constructor
  · intro x z h; simp only [cdc] at h; split at h
    · cases h; subst x; decide
    · cases h
  · intro x z h; simp only [cdc] at h; split at h
    · cases h; subst x; decide
    · cases h
def PP : Params := { B := 4, base := 96, h := fun _ => 0, codec := cdc }
def F3 : Flags := { dontCompress := true, dontFragment := true, ignoreSparse := true }
def fs : List InFile := [⟨{}, [7, 7, 7, 7, 1, 2]⟩, ⟨{}, [7, 7, 7, 7, 1, 2]⟩, ⟨{ dontDedup := true }, [7, 7, 7, 7, 1, 2]⟩,
                         ⟨{ ignoreSparse := true }, [0, 0, 0, 0, 0]⟩, ⟨F3, [7,7,7,7,0,0,0,0,0,0]⟩, ⟨{dontCompress := true}, [7,7,7,7,7,7,7,7,1,2]⟩]
example := dont_compress_words PP fs 4 (by decide) rfl
example := dont_compress_words PP fs 5 (by decide) rfl
example := dont_fragment_effect PP fs 4 (by decide) rfl
example := nosparse_effect PP fs 3 (by decide) rfl
example := nosparse_effect PP fs 4 (by decide) rfl
example : hasTailFrag PP.B fs[3] = true := by decide
example := no_tail_packing_only_large 4 6 F3
example := no_tail_packing_layout PP {} {} [7,7,7,7,1,2]
example := dont_compress_effect PP fs 5 (by decide) rfl
#eval (specPack PP fs).files.map (fun r => (r.start, r.words.map Word.toNat, r.frag, r.shared))
#eval (specPack PP fs).frags.map (fun e => e.raw)
example := dont_dedup_effect PP fs 0 2 (by decide) (by decide) rfl
example := layout_follows_order PP (by decide) cdcOk fs 0 2 (by decide) (by decide)
example := directives_preserve_content PP (by decide) cdcOk fs 1 (by decide)
example := directives_preserve_size PP fs
-- export
theorem hall4 : ∀ m, 1 ≤ m → m ≤ 4 → m ∈ [2, 3, 2, 4] ++ [1] := by
  intro m h1 h2
  have : m = 1 ∨ m = 2 ∨ m = 3 ∨ m = 4 := by omega
  rcases this with h | h | h | h <;> subst h <;> decide
example := export_table_ok (fun m => UInt64.ofNat (m * 10)) [2, 3, 2, 4] 1 4 (by decide) hall4
open Sqfs.C17Export in
example := export_array_refines [(600, 7), (2, 9)] (1, 5) (by decide)
open Sqfs.C17Export in
example := export_table_written (fun _ => none) [(600, 7), (2, 9)] (1, 5) (by decide)
open Sqfs.Numbering Sqfs.C17Export in
example := export_table_of_tree [.file, .dir [.file, .hlink 0], .file] (fun m => UInt64.ofNat (m * 10)) [2, 3, 1, 4, 3] (by decide) (by decide)

#print axioms sort_perm
#print axioms sort_sorted
#print axioms sort_stable
#print axioms first_match_wins
#print axioms exact_line_matches_one
#print axioms quoted_name_decodes
#print axioms directives_preserve_tree
#print axioms dont_compress_words
#print axioms dont_fragment_effect
#print axioms nosparse_effect
#print axioms no_tail_packing_only_large
#print axioms no_tail_packing_layout
#print axioms dont_compress_effect
#print axioms dont_dedup_effect
#print axioms layout_follows_order
#print axioms directives_preserve_content
#print axioms directives_preserve_size
#print axioms export_table_ok
#print axioms export_array_refines
#print axioms export_table_written
#print axioms export_table_of_tree
