import Sqfs.Props.C19
open Sqfs.Obj Sqfs.Obj.Kinds Sqfs.C19
set_option maxRecDepth 100000

def H : Heap := (construct envHeap .dirReader 0 1).1
def HD : Heap := (construct H .dataReader 0 1).1
def HX : Heap := (construct HD .xattrWriter 0 1).1
#eval (construct envHeap .dirReader 0 1).2
#eval (construct H .dataReader 0 1).2
#eval (construct HD .xattrWriter 0 1).2
#eval (HX.objs 4).map (fun o => (repr o.kind, o.rc, o.refs, o.bufs, o.views))
#eval (HX.objs 7).map (fun o => (repr o.kind, o.rc, o.refs, o.bufs, o.views))
#eval (HX.objs 6).map (fun o => (repr o.kind, o.rc, o.refs, o.bufs, o.views))
#eval (HX.objs 5).map (fun o => (repr o.kind, o.rc, o.refs, o.bufs, o.views))
#eval (HX.objs 0).map (fun o => (repr o.kind, o.rc))
#eval HX.nobj

example := desc_wellformed .dirReader

-- a balanced heap with a dir reader (4), data reader, xattr writer
theorem HXbal : ∃ U, Balanced HX U ∧ U 0 = 1 ∧ U 1 = 1 ∧ U 4 = 1 ∧ U (construct H .dataReader 0 1).2 = 1 ∧ U (construct HD .xattrWriter 0 1).2 = 1 := by
  obtain ⟨U, hb, h0, h1⟩ := envHeap_balanced
  have e4 : (construct envHeap .dirReader 0 1).2 = 4 := by decide
  have hU4 : U 4 = 0 := (hb.dead 4 (Or.inl (by decide))).1
  have b3 := constructed_balanced .dirReader envHeap U 0 1 hb (by decide) (by decide)
  have b4 := constructed_balanced .dataReader H _ 0 1 b3 (by decide) (by decide)
  have b5 := constructed_balanced .xattrWriter HD _ 0 1 b4 (by decide) (by decide)
  have e5 : (construct H .dataReader 0 1).2 = 6 := by decide
  have e6 : (construct HD .xattrWriter 0 1).2 = 7 := by decide
  have hU7 : U 6 = 0 := (hb.dead 6 (Or.inl (by decide))).1
  have hU8 : U 7 = 0 := (hb.dead 7 (Or.inl (by decide))).1
  simp only [e4, e5, e6] at b5
  refine ⟨_, b5, ?_, ?_, ?_, ?_, ?_⟩ <;> simp [e5, e6, h0, h1, hU4, hU7, hU8]

example : True := by
  obtain ⟨U, hb, h0, h1, h4, h7, h8⟩ := HXbal
  have e7 : (construct H .dataReader 0 1).2 = 6 := by decide
  have e8 : (construct HD .xattrWriter 0 1).2 = 7 := by decide
  rw [e7] at h7; rw [e8] at h8
  -- copy_balanced on dir reader
  have t1 := copy_balanced HX U 4 hb rfl (by decide)
  have t2 := copy_fail_safe HX U 4 2 hb (by decide)
  have t3 := release_safe HX U [4, 0, 7] hb (by
    intro x
    by_cases a : x = 4
    · subst a; simp [h4]
    · by_cases b : x = 0
      · subst b; simp [h0]
      · by_cases c : x = 7
        · subst c; simp [h8]
        · have : ¬ 4 = x := fun e => a e.symm
          have : ¬ 0 = x := fun e => b e.symm
          have : ¬ 7 = x := fun e => c e.symm
          simp [List.count_cons, *])
  have t4 := release_safe_either_order HX U 4 6 hb (by omega) (by omega) (by decide)
  have t5 := copy_then_release_restores HX U 4 hb rfl (by decide)
  -- refcount_exact on the file (held by user + readers)
  cases hx : HX.objs 0 with
  | none => exact absurd hx (by decide)
  | some o0 =>
  have t6 := refcount_exact HX U 0 o0 hb hx
  cases h4o : HX.objs 4 with
  | none => exact absurd h4o (by decide)
  | some o4 =>
  cases h7o : HX.objs 6 with
  | none => exact absurd h7o (by decide)
  | some o7 =>
  cases h8o : HX.objs 7 with
  | none => exact absurd h8o (by decide)
  | some o8 =>
  have k4 : o4 = ⟨.dirReader, 1, true, true, [some 2, some 3, some 0, some 1], [some 0], []⟩ ∨ True := Or.inr trivial
  -- copy_equiv: ShapeOk for xattr writer 8 and dir reader 4
  have s8 : ShapeOk (desc o8.kind) o8 := by
    have : HX.objs 7 = some o8 := h8o
    have e : o8 = (HX.objs 7).get (by decide) := by simp [h8o]
    subst e
    refine ⟨by decide, by decide, ?_⟩
    decide
  have s4 : ShapeOk (desc o4.kind) o4 := by
    have e : o4 = (HX.objs 4).get (by decide) := by simp [h4o]
    subst e
    refine ⟨by decide, by decide, ?_⟩
    decide
  have t7 := copy_equiv HX U 7 o8 hb rfl h8o s8
  have t7' := copy_equiv HX U 4 o4 hb rfl h4o s4
  have t8 := copy_same_buffer_sizes HX U 6 o7 hb rfl h7o (by
      have e : o7 = (HX.objs 6).get (by decide) := by simp [h7o]
      subst e; decide) (by
      have e : o7 = (HX.objs 6).get (by decide) := by simp [h7o]
      subst e; decide)
  have t9 := copy_independent HX U 4 6 o4 o7 [(0, 5), (0, 6)] hb h4o h7o (by decide)
  have t10 := copy_independent HX U 7 4 o8 o4 [(0, 5), (2, 6)] hb h8o h4o (by decide)
  trivial

#print axioms desc_wellformed
