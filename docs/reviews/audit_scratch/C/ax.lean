import Sqfs.Props.C19
#print axioms Sqfs.C19.envHeap_balanced
