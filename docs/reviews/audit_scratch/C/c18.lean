import Sqfs.Props.C18
open Sqfs.Path Sqfs.C18
def s1 : Bytes := [47,47,97,47,46,47,98,47,47,99,47,46]
def r1 : Bytes := [97,47,98,47,99]
theorem h1 : canonicalize s1 = some r1 := by decide
example := canon_eq_spec s1
example := (canon_fails_iff_dotdot [97,47,46,46,47,98]).1 (by decide)
example := canon_same_entry_and_clean s1 r1 h1
example := canon_length_le s1 r1 h1
example := canon_idempotent s1 r1 h1
example := (sane_iff [46,46,46]).1 (by decide)
example := norm_dst_le_src true true s1
example : True := by
  cases h : canonGo true (normalizeSlashes s1) with
  | none => trivial
  | some r => have := canon_dst_le_src true _ r h; trivial
example : (canonGo true (normalizeSlashes s1)).isSome = true := by decide
example := canon_inplace_memory s1 (by decide) [1,2] 20 (by decide)
example := (canon_inplace_memory [97,47,46,46] (by decide) [7] 10 (by decide)).1 (by decide)
example := norm_inplace_memory s1 (by decide) [9] 20 (by decide)
example := canon_inplace_eq_model s1 (by decide)
#print axioms canon_eq_spec
#print axioms canon_fails_iff_dotdot
#print axioms canon_same_entry_and_clean
#print axioms canon_length_le
#print axioms canon_idempotent
#print axioms sane_iff
#print axioms norm_dst_le_src
#print axioms canon_dst_le_src
#print axioms canon_inplace_memory
#print axioms norm_inplace_memory
#print axioms canon_inplace_eq_model
