import Sqfs.Props.C16
open Sqfs.Path (Bytes joinSlash)
open Sqfs.Quote Sqfs.Consts Sqfs.C16
set_option maxRecDepth 100000

def flds : List Bytes := [[97,32,98], [], [92,34], [120], [9], [35,99,13,10]]
example := split_print_roundtrip flds (by decide)

theorem hcomps : ∀ c ∈ exComps, GoodName c := by unfold exComps GoodName; decide
theorem hwf : exNode.Wf := by unfold Node.Wf LineSafe exNode; decide
def ur : Option Bytes := some [82, 32, 115]
theorem hur : ∀ r, ur = some r → LineSafe r := by
  intro r h; cases h; unfold LineSafe; decide
theorem hurN : ∀ r, ur = some r → NUL ∉ r := fun r h => (hur r h).1
example := handle_print_roundtrip ur exComps exNode hcomps hwf hur (by decide) _ rfl
example := handle_print_roundtrip_line ur exComps exNode hcomps hwf hur (by decide) _ rfl
-- a file node with unpack root
def fNode : Node := { kind := .file, perm := 0o644, uid := 1, gid := 2 }
example := handle_print_roundtrip ur exComps fNode hcomps (by unfold Node.Wf LineSafe fNode; decide) hur (by decide) _ rfl
-- root
example := handle_print_roundtrip ur [] { kind := .dir, perm := 0o700, uid := 7, gid := 8 } (by simp) (by unfold Node.Wf LineSafe; decide) hur (by simp) _ rfl

theorem hroot : RootOk exFs := by
  unfold exFs
  simp only [RootOk, ForestOk, TreeOk, GoodName, Node.Wf, LineSafe]
  and_intros
  all_goals decide
theorem hsh : Sqfs.QuoteFs.Shallow 0 exFs := by
  simp only [exFs, Sqfs.QuoteFs.Shallow, Sqfs.QuoteFs.ShallowF]
  decide
theorem hdist : Sqfs.QuoteFs.Distinct exFs := by
  simp only [exFs, Sqfs.QuoteFs.Distinct, Sqfs.QuoteFs.DistinctF, List.map, Tree.name, List.length]
  decide
example := describe_roundtrip ur hur exFs hroot
example := describe_newline_same ur hur exFs hroot
example := rebuild_fstree_partial { mtime := 9 } (by decide) ur hur exFs hroot hdist hsh
example := describe_prints_no_link ur hur exFs hroot
-- newline
theorem hrootN : RootOkN exLF := by
  simp only [exLF, RootOkN, ForestOkN, TreeOkN, ImgName, Node.WfN]
  decide
example := describe_newline_refusal none (by simp) exLF hrootN .newline (by decide)
-- sound: need a RootOkN tree that prints: with a LF somewhere not printed? use exFs-like tree
def tOk : Tree := .mk [] { kind := .dir, perm := 0o700, uid := 7, gid := 8 }
    [.mk [97, 9] { kind := .file, perm := 0o644, uid := 0, gid := 0 } [], .mk [98] { kind := .slink, perm := 0o777, uid := 0, gid := 0, target := [99,32] } []]
theorem htOkN : RootOkN tOk := by
  simp only [tOk, RootOkN, ForestOkN, TreeOkN, ImgName, Node.WfN]
  decide
example : True := by
  cases h : Sqfs.QuoteLF.describe ur tOk with
  | error e => trivial
  | ok out => have := describe_newline_sound ur hurN tOk htOkN out h; trivial
example : (Sqfs.QuoteLF.describe ur tOk).toBool = true := by decide
-- LF in unpack root not printed
example : True := by
  cases h : Sqfs.QuoteLF.describe (some [10]) (.mk [] { kind := .dir, perm := 0o700, uid := 7, gid := 8 } [.mk [98] { kind := .slink, perm := 0o777, uid := 0, gid := 0, target := [99,32] } []]) with
  | error e => trivial
  | ok out => 
    have := describe_newline_sound (some [10]) (by intro r h; cases h; decide) _ (by simp only [RootOkN, ForestOkN, TreeOkN, ImgName, Node.WfN]; decide) out h; trivial
-- node-level newline
theorem hcompsN : ∀ c ∈ exComps, ImgName c := fun c h => (hcomps c h).img
example : True := by
  cases h : Sqfs.QuoteLF.describeNode ur exComps exNode with
  | error e => trivial
  | ok line =>
    have := handle_print_newline_sound ur hurN exComps exNode hcompsN (by unfold Node.WfN exNode; decide) (by decide) line h; trivial
example : (Sqfs.QuoteLF.describeNode ur exComps exNode).toBool = true := by decide
example := split_never_fuel packSep [97,32,34,98,34,32,99]
example := split_dst_le_src packSep [97,32,34,98,34,32,99] [(0, 0), (2, 2), (4, 6)] (by decide)
example := parse_print_dec 4294967295 (by decide)
example := parse_print_mode 0o7777 (by decide)
example := device_number_roundtrip 0x12345678 (by decide)
-- conclusion probes
#eval specTree ur [] exFs |>.length
#eval (fstreeFromFile {} [102,111,111,10]).2.isSome
#print axioms split_print_roundtrip
#print axioms handle_print_roundtrip
#print axioms handle_print_roundtrip_line
#print axioms describe_roundtrip
#print axioms describe_newline_sound
#print axioms describe_newline_refusal
#print axioms describe_newline_same
#print axioms handle_print_newline_sound
#print axioms rebuild_fstree_partial
#print axioms describe_prints_no_link
#print axioms split_never_fuel
#print axioms split_dst_le_src
#print axioms parse_print_dec
#print axioms parse_print_mode
#print axioms device_number_roundtrip
