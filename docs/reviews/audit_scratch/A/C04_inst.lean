import Sqfs.Props.C04
open Sqfs Sqfs.C04 Sqfs.Tar

example := readNumber_exact_or_error [49, 50, 51, 0]
example := readNumber_octal_exact 49 [50, 51, 0] 83 (by decide) (by decide)
example := readNumber_binary_exact 128 [0, 0, 0, 1, 0, 0, 0] 16777216 (by decide) (by decide)
example := readNumber_binary_exact 255 (List.replicate 11 255) 18446744073709551615 (by decide) (by decide)
example := number_roundtrip 16777216 8 (by decide) (by decide) (by decide)
example := number_roundtrip 2097152 8 (by decide) (by decide) (by decide)
example := number_roundtrip_signed (-5) 12 (by decide) (by decide)
set_option maxRecDepth 100000 in
example := checksum_roundtrip posixBlock (by decide)
example := prefix_digit_len_correct 98
example := schily_record_length (ascii "user.a=b%") [0, 61, 10, 255]
example := xattr_key_escape (ascii "user.a=b%")
example := pax_record_roundtrip ⟨{}, 0, false, 0⟩ (ascii "user.a=b%") [0, 61, 10, 255] [1, 2, 3] (by decide)
example := pax_payload_roundtrip exXs {} 0 (by decide)

set_option maxRecDepth 100000 in
theorem exEnc : Encodable exEntry none exXs :=
  { nameNul := by decide, tgtNul := by decide, keyNul := by decide, size := by decide, mtime := by decide, uid := by decide,
    gid := by decide, dev := by decide, nameLen := by decide, tgtLen := by decide, paxLen := by decide, slink := by decide,
    hlink := by decide }

set_option maxRecDepth 1000000 in
set_option maxHeartbeats 2000000 in
example : ∃ w, writeTarHeader exEntry none exXs 7 = some w ∧
    readHeader (w ++ [1, 2, 3]) = .ok (decodedOf exEntry none exXs.reverse) [1, 2, 3] := by
  cases h : writeTarHeader exEntry none exXs 7 with
  | none =>
    exfalso
    have := (header_refusal exEntry none exXs 7).1.1 h
    exact absurd this.2.1 (by decide)
  | some w => exact ⟨w, rfl, header_roundtrip exEntry none exXs 7 [1, 2, 3] w exEnc h⟩

-- a symlink with a long target (K record), and a hard link
abbrev lnkEntry : WEntry := ⟨ascii "l", 0o120777, 0, 0, 150, 0, 0, 0, false⟩
set_option maxRecDepth 100000 in
theorem lnkEnc : Encodable lnkEntry (some (List.replicate 150 98)) [] :=
  { nameNul := by decide, tgtNul := by decide, keyNul := by decide, size := by decide, mtime := by decide, uid := by decide,
    gid := by decide, dev := by decide, nameLen := by decide, tgtLen := by decide, paxLen := by decide, slink := by decide,
    hlink := by decide }
example : ∀ w, writeTarHeader lnkEntry (some (List.replicate 150 98)) [] 0 = some w →
    readHeader (w ++ []) = .ok (decodedOf lnkEntry (some (List.replicate 150 98)) []) [] :=
  fun w h => header_roundtrip lnkEntry _ [] 0 [] w lnkEnc h
example := header_refusal ⟨ascii "s", 0o140755, 0, 0, 0, 0, 0, 0, false⟩ none [(ascii "user.x", [1])] 0
example := header_prefix_unused (field 100 (ascii "file")) 0o644 0 0 5 0 48 (zeros 100) 0 0 (by decide) (by decide)
example := decode_header_spec posixBlock 0 {} .posix

set_option maxRecDepth 1000000 in
theorem pb : posixBlock.length = 512 ∧ isZeroBlock posixBlock = false ∧ checkVersion posixBlock = some .posix ∧
    isChecksumValid posixBlock = true ∧ (slice posixBlock 156 1).headD 0 = 48 := by decide
theorem pbtf : (slice posixBlock 156 1).headD 0 ≠ 75 ∧ (slice posixBlock 156 1).headD 0 ≠ 76 ∧ (slice posixBlock 156 1).headD 0 ≠ 103 ∧
           (slice posixBlock 156 1).headD 0 ≠ 120 ∧ (slice posixBlock 156 1).headD 0 ≠ 83 := by
  rw [pb.2.2.2.2]; decide
example := read_header_plain_block posixBlock [9, 9] .posix pb.1 pb.2.1 pb.2.2.1 pb.2.2.2.1 pbtf
example := read_header_after_records {} 3 posixBlock [9, 9] false .posix PAX_NAME { name := some (ascii "n") } pb.1 pb.2.1 pb.2.2.1 pb.2.2.2.1 pbtf rfl (by decide)

abbrev longName : Bytes := ascii "a/long/name"
abbrev HL : Bytes := hdrBlock (field 100 ((ascii "././@LongLink").take 99)) 0o644 0 0 longName.length 0 76 (zeros 100) 0 0
theorem hlIs : IsHdr HL 76 longName.length :=
  ext_isHdr ⟨[], 0, 0, 0, 0, 0, 0, 0, false⟩ longName 76 (ascii "././@LongLink") (by decide)
example := (gnu_long_records {} 5 HL longName [9] {} 0 false (by decide) (by decide)).1 hlIs
abbrev HK : Bytes := hdrBlock (field 100 ((ascii "././@LongLink").take 99)) 0o644 0 0 longName.length 0 75 (zeros 100) 0 0
example := (gnu_long_records {} 5 HK longName [9] {} 0 false (by decide) (by decide)).2.1
  (ext_isHdr ⟨[], 0, 0, 0, 0, 0, 0, 0, false⟩ longName 75 (ascii "././@LongLink") (by decide))
abbrev px : Bytes := paxRecord (ascii "path") (ascii "x/y")
abbrev HX : Bytes := hdrBlock (field 100 ((ascii "pax").take 99)) 0o644 0 0 px.length 0 120 (zeros 100) 0 0
example := (gnu_long_records {} 5 HX px [9] {} 0 false (by decide) (by decide)).2.2
  (ext_isHdr ⟨[], 0, 0, 0, 0, 0, 0, 0, false⟩ px 120 (ascii "pax") (by decide))
  { name := some (ascii "x/y") } (setFlag 0 PAX_NAME) (by decide)
example := gnu_long_name_member HL longName posixBlock [9, 9] .posix hlIs (by decide) (by decide) pb.1 pb.2.1 pb.2.2.1 pb.2.2.2.1 pbtf
example := pax_record_spec {} ⟨{}, 0, false, 0⟩ (ascii "path") (ascii "x/y") [1] (by decide) (by decide) (by decide)
example := pax_record_spec {} ⟨{}, 0, false, 0⟩ (ascii "mtime") (ascii "12.5") [1] (by decide) (by decide) (by decide)

theorem wfm : WellFormedMap 0 [(2, 3), (5, 0), (8, 2)] 12 := by simp [WellFormedMap]
example := sparse_expand_spec [(2, 3), (5, 0), (8, 2)] 12 [1, 2, 3, 4, 5, 9, 9] (by decide) wfm (by decide) (by decide)
example := sparse_expand_spec_any_request_size 3 (by decide) [(2, 3), (5, 0), (8, 2)] 12 [1, 2, 3, 4, 5, 9, 9] (by decide) wfm (by decide) (by decide)
example := specExpand_length [(2, 3), (5, 0), (8, 2)] 0 12 [1, 2, 3, 4, 5, 9, 9] wfm (by decide)
example := mtime_clamp (-5)
example := mtime_overwrite_path_safe 8589934592
example := prefix_strip { rootBecomes := some (ascii "r") } ⟨ascii "r/x", 0o100644, 0, 0, 0, false, none, 0, 0⟩ (ascii "r") rfl
example := root_handling {} ⟨ascii "a/b", 0o100644, 0, 0, 0, false, none, 0, 0⟩ rfl
abbrev ipE : CEntry := ⟨ascii "a/b/c", 0o100644, 0, 0, 0, false, none, 0, 0⟩
example : ∀ t', addGeneric {} [] ipE = some t' → ∃ n ∈ t', n.path = (Sqfs.Path.splitSlash ipE.name).take 2 ∧ isDirMode n.mode = true :=
  fun t' h => implicit_parents {} [] t' ipE h 2 (by decide) (by decide)
example : (addGeneric {} [] ipE).isSome = true := by decide
example := retarget_spec (ascii "r") (ascii "r//y/./z")
example : retarget (ascii "r") (ascii "r//y/./z") = ascii "/y/z" := by decide
