import Sqfs.Props.C02
import Sqfs.Props.C03
import Sqfs.Props.C06
open Sqfs Sqfs.C02 Sqfs.BlockProc

-- (1) second conjunct of schedule_independent_stateful does not need HistoryIndependent
theorem stateful_run_without_hi {σ : Type} (P : Params) (c : StatefulCodec σ)
    (hc : CodecOk c.pure) (hB0 : 0 < P.B) (hB : P.B < 2 ^ 24) (n : Nat) (beh : List Pool.Op → Pool.Ret)
    (h : RealisedBy n beh) (mb : Nat) (files : List InFile) :
    run { P with codec := c.pure, ans := behAns beh } mb files = runEager (serial { P with codec := c.pure }) files :=
  (schedule_independent { P with codec := c.pure } hc hB0 hB n beh h mb files).2
-- even for the leaky (history dependent) codec, whose pure form meets no contract problem:
example : ¬ leakyCodec.HistoryIndependent := stateful_worker_schedule_dependent.2.2.2

-- (2) times: the conclusion holds for ANY two environments once the option pins the mtime, and the model reads nothing else
example (e1 e2 : Sqfs.BuildEnv.ProcessEnv) (inputs : List Int) :
    Sqfs.BuildEnv.imageTimes e1 { defaultsMtime := some 5 } inputs = Sqfs.BuildEnv.imageTimes e2 { defaultsMtime := some 5 } inputs := rfl

-- (3) decode_name_is_cstr is definitional
example (tf : Sqfs.Unpack.TreeFlags) (n : Sqfs.Path.Bytes) (k p a ch) :
    (Sqfs.Unpack.decode tf (.mk n k p a ch)).name = Sqfs.Unpack.cstr n := by
  unfold Sqfs.Unpack.decode; rfl

-- (4) keep_in_memory: Keep.append never touches `file`, by definition
example (cmp : Sqfs.MetaWriter.Codec) (k : Sqfs.MetaWriter.Keep) (d) : (Sqfs.MetaWriter.Keep.append cmp k d).file = k.file := rfl
example (cmp : Sqfs.MetaWriter.Codec) (k : Sqfs.MetaWriter.Keep) (d) :
    (Sqfs.MetaWriter.Keep.append cmp k d).st = Sqfs.MetaWriter.append cmp k.st d := rfl
