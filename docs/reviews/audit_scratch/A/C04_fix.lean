import Sqfs.Props.C04
open Sqfs Sqfs.C04 Sqfs.Tar

set_option maxRecDepth 100000 in
theorem exFI : FromImage exImg exTree where
  nodes := by
    intro n hn
    simp only [exTree, List.mem_cons, List.not_mem_nil, or_false] at hn
    rcases hn with rfl | rfl | rfl | rfl | rfl
    all_goals exact
      { pathNe := by decide, comps := by decide, kind := by decide, explicit := by decide, uid := by decide, gid := by decide,
        mtime := by decide, lnkMode := by decide, hardMode := by decide,
        lnkTarget := by first | (intro h; exact absurd h (by decide)) | (intro _; exact ⟨_, rfl, by decide, by decide⟩),
        hardTarget := by first | (intro h; exact absurd h (by decide)) | (intro _; exact ⟨_, rfl, by decide⟩),
        noTarget := by decide, dev := by decide, nameLen := by decide, contentLen := by decide, keyNul := by decide,
        paxLen := by decide }
  distinct := by
    intro i j hi hj h
    have hnd : (exTree.map (·.path)).Nodup := by decide
    have := (List.getElem_inj (xs := exTree.map (·.path)) (i := i) (j := j) (h₀ := by simpa using hi) (h₁ := by simpa using hj) hnd).1
      (by rw [List.getElem_map, List.getElem_map]; exact h)
    exact this
  parents := by
    intro i hi k h0 hk
    have hi' : i < 5 := hi
    rcases i with _ | _ | _ | _ | _ | i
    · simp [exTree] at hk; omega
    · have : k = 1 := by simp [exTree] at hk; omega
      subst this
      exact ⟨0, by decide, by decide, rfl, rfl⟩
    · have : k = 1 := by simp [exTree] at hk; omega
      subst this
      exact ⟨0, by decide, by decide, rfl, rfl⟩
    · simp [exTree] at hk; omega
    · simp [exTree] at hk; omega
    · omega

example := fixpoint_entry_level exImg exTree exFI 1 (by decide) 0 [7, 7] []
example := fixpoint_entry_level exImg exTree exFI 4 (by decide) 3 [] []
example := fixpoint_tree_level exImg exTree exFI
example := fixpoint_idempotent exImg exTree exTree (devsOf exImg exTree) exFI (fixpoint_tree_level exImg exTree exFI).1
