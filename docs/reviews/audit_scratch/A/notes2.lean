import Sqfs.Props.C05
open Sqfs Sqfs.C05 Sqfs.ReaderWalk
-- the graph of the in-file example `readTree ⟨…, fun r => r.toUInt32⟩ 3 0 = .ok 2` does not meet `hS` for any S of length 3
-- (hS quantifies over all references r : ℕ, not over the references reachable from the root)
example : ¬ ∀ r, (⟨fun r => if r = 0 then [1, 2] else [], fun _ => true, fun r => r.toUInt32⟩ : DirGraph).inum r ∈ [(0 : UInt32), 1, 2] := by
  intro h; have := h 3; revert this; decide
