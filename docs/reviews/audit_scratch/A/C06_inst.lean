import Sqfs.Props.C06
open Sqfs Sqfs.C06 Sqfs.Path Sqfs.Unpack

abbrev A : Bytes := [97]
abbrev B : Bytes := [98]
abbrev DD : Bytes := [DOT, DOT]
abbrev X : Bytes := [120]
abbrev Rn : Bytes := [82]
abbrev upX : Bytes := [DOT, DOT, SL, 120]
def fs0 : Fs := fun q =>
  if q = [] ∨ q = [Rn] then some ⟨.dir, {}⟩ else if q = [X] then some ⟨.file [1], {}⟩ else none
theorem fresh0 : Fresh fs0 [Rn] := by
  refine ⟨⟨_, rfl⟩, ?_⟩
  intro p hp
  unfold fs0
  have h1 : p ≠ [] := by intro e; subst e; simp [underB] at hp
  have h2 : p ≠ [Rn] := by intro e; subst e; simp [underB] at hp
  have h3 : p ≠ [X] := by intro e; subst e; simp [underB, List.isPrefixOf] at hp
  simp [h1, h2, h3]
def hostile : TNode :=
  .mk [] .dir [] {} [.mk B .dir [] {} [.mk DD .reg [1] {} [], .mk A .reg [2] {} []], .mk A .lnk upX {} []]
def fs1 : Fs := fun q => if q = [] then some ⟨.dir, {}⟩ else if q = [X] then some ⟨.file [1], {}⟩ else none
def fs2 : Fs := fun q => if q = [] then some ⟨.dir, {}⟩ else if q = [X] ∨ q = [Rn] then some ⟨.file [1], {}⟩ else none
def fs4 : Fs := fun q =>
  if q = [] ∨ q = [Rn] ∨ q = [Rn, B] then some ⟨.dir, {}⟩ else if q = [X] ∨ q = [Rn, A] ∨ q = [Rn, B, A] then some ⟨.file [1], {}⟩ else none
theorem nolink4 : NoLinkBelow fs4 [Rn] := by
  refine ⟨⟨_, rfl⟩, ?_⟩
  intro p _ t a
  unfold fs4
  split
  · intro e; cases e
  · split
    · intro e; cases e
    · intro e; cases e

theorem ordId : OrdOK id := fun _ _ h => h
theorem allId : OrdAll id := fun _ _ h => h
def fl : Flags := { chmod := true }

-- treeSort succeeds on hostile
example : (treeSort hostile).toOption.isSome = true := by decide
example : ∀ t', treeSort hostile = .ok t' → NodupH t' := fun t' h => treeSort_names_distinct hostile t' h
example := decode_name_is_cstr {} [97, 0, 98] .reg [] {} []
example := plan_paths_clean id ordId fl hostile
example : (unpackTree id fl hostile).syscalls.length = 6 := by decide
-- plan_prefix_dirs: the openExcl "b/a" call is at position 2 of the events
example : (unpackTree id fl hostile).evs =
    [.sys (.symlink upX A), .sys (.mkdir B 0o755), .skip DD] ++ Ev.sys (.openExcl [98, 47, 97] 0o200) ::
     [.skip DD, .sys (.openTrunc [98, 47, 97] [2]), .sys (.chmod [98, 47, 97] 0), .sys (.chmod B 0)] := by decide
example := plan_prefix_dirs id ordId fl hostile _ _ _ (show (unpackTree id fl hostile).evs =
    [.sys (.symlink upX A), .sys (.mkdir B 0o755), .skip DD] ++ Ev.sys (.openExcl [98, 47, 97] 0o200) ::
     [.skip DD, .sys (.openTrunc [98, 47, 97] [2]), .sys (.chmod [98, 47, 97] 0), .sys (.chmod B 0)] from by decide)

-- resolve_stays_under_R: fs with /R/b a directory, resolve "b/a"
def fs5 : Fs := fun q => if q = [] ∨ q = [Rn] ∨ q = [Rn, B] then some ⟨.dir, {}⟩ else none
example := resolve_stays_under_R fs5 [Rn] [B, A] false (by decide)
  (by
    intro pre hp hne hne2
    right
    have : pre = [B] := by
      rcases pre with _ | ⟨a, _ | ⟨b, t⟩⟩
      · exact absurd rfl hne
      · have := hp; simp [List.prefix_cons_inj, List.cons_prefix_cons] at this; simp [this]
      · exfalso
        have h := hp
        simp only [List.cons_prefix_cons] at h
        obtain ⟨rfl, rfl, h3⟩ := h
        have : t = [] := List.eq_nil_of_prefix_nil h3
        subst this; exact hne2 rfl
    subst this
    exact ⟨{}, rfl⟩)
  (Or.inl rfl)
example := confinement id ordId fl hostile [Rn] fs0 fresh0
example := confinement_raw hostile fl {} [Rn] fs0 fresh0
example := fun (t' : TNode) (hs : treeSort hostile = .ok t') => below_R_only_tree_nodes id ordId fl hostile t' hs [Rn] fs0 fresh0 [B, A] (by decide)
example := skipped_reported_rest_unpacked fl hostile (by decide)
example := get_path_then_canonicalize_never_fails [] [B, A]
example := get_path_tests_redundant_behind_gate A (by decide)
example := confinement_under_faults id ordId fl hostile [Rn] fs0 fresh0
example := main_confinement id ordId fl hostile (some Rn) (fun i => if i = 4 then some .EPERM else none) [] fs1
example : (unpackMain id fl hostile (some Rn) noFaults [] fs2).established = false := by decide
example := root_not_established_nothing_unpacked id fl hostile (some Rn) noFaults [] fs2 (by decide)
example := failed_chdir_writes_nothing id fl hostile Rn noFaults [] fs2 .ENOTDIR (by decide) (by decide)
def flt4 : Faults := fun i => if i = 4 then some .EPERM else none
example := failing_step_ends_run id {} hostile (some Rn) flt4 [] fs1 (.openExcl [98, 47, 97] 0o644, some .EPERM) (by decide)
  (by intro h; rcases h with h | ⟨e, h1, h2⟩
      · cases h
      · cases h1; revert h2; decide)
def flt0 : Faults := fun i => if i = 0 then some .EACCES else none
example : (unpackMain id {} hostile (some Rn) flt0 [] fs1).pre = [(.mkdir Rn 0o755, some .EACCES)] := by decide
example := failing_mkdir_p_ends_run id {} hostile Rn flt0 [] fs1 (.mkdir Rn 0o755, some .EACCES) (by decide)
  (by intro h; rcases h with h | ⟨e, h1, h2⟩
      · cases h
      · cases h1; revert h2; decide)
example := success_means_everything_unpacked id allId fl hostile (by decide) (some Rn) noFaults [] fs1 (by decide)
example : ∀ t', treeSort hostile = .ok t' → (planSorted id fl t').err = none →
    (∀ x ∈ (unpackMain id fl hostile (some Rn) noFaults [] fs1).trace, Fine x) → (unpackMain id fl hostile (some Rn) noFaults [] fs1).exit = 0 :=
  fun t' hs hp hf => exit_zero_of_all_fine id fl hostile t' (some Rn) noFaults [] fs1 hs (by decide) hp hf
example := skip_reports_exact fl hostile (by decide)
example := confinement_without_symlinks_below id ordId fl hostile [Rn] fs4 nolink4
example : (unpackMain id {} hostile (some Rn) noFaults [] fs4).cwd = [Rn] := by decide
example := fresh_implies_no_link_below fs0 [Rn] fresh0
example := ordByLoc_is_a_fill_order
