import Sqfs.Props.C03
open Sqfs Sqfs.C03 Sqfs.Consts
open Sqfs.DirWriter Sqfs.MetaWriter

abbrev e1 : DEnt := ⟨0x10020, 5, 2, [97]⟩
abbrev e2 : DEnt := ⟨0x10040, 6, 2, [98]⟩
abbrev e3 : DEnt := ⟨0x20000, 7, 2, [99]⟩
example := conseq_count_ok 8000 e1 [e2, e3]
example : conseqCount 8000 [e1, e2, e3] = 2 := by decide
example := dir_end_headers_ok toyCodec {} [e1, e2, e3] (by decide)
example := add_entry_name_fits [97, 98] 3 0x10020 0o100644 ⟨0x10020, 3, 2, [97, 98]⟩ (by decide)
example := dir_index_count_exact 0 (dirEndM toyCodec {} [e1, e2, e3]).1 3 0 0 1

-- dir_index_points_at_headers with a meta writer that already holds 100 bytes
def st0 : St := [List.replicate 100 (1 : UInt8)].foldl (append toyCodec) {}
theorem st0_wf : WF toyCodec st0 := (foldl_append_wf toyCodec _ {} (wf_init _)).1
set_option maxRecDepth 100000 in
example : st0.cur.length = 100 := by decide
set_option maxRecDepth 100000 in
example := dir_index_points_at_headers toyCodec st0 st0_wf [e1, e2, e3] (dirEndM toyCodec st0 [e1, e2, e3]).2 (Ext.refl _)
  0 0 1 1 (30, 0, [99]) (by decide)

example := export_table_resolves (fun n => 0x100 * n) [(3, 0x300), (1, 0x100), (3, 0x300)] 4 (by decide) (by decide)
example := meta_block_le_8k toyCodec [[1, 2, 3, 4, 5], [6, 7]]
theorem toy_shrinks : toyCodec.Shrinks := by
  intro x c h
  unfold toyCodec at h
  split at h
  · simp only [Option.some.injEq] at h; subst h; simp; omega
  · simp at h
example := meta_stored_le_unpacked toyCodec toy_shrinks [[1, 2, 3, 4, 5], [6, 7]]
example := data_block_size_rule toyCodec toy_shrinks ⟨0, [1, 2, 3, 4, 5]⟩ (by decide)
example := write_table_locations toyCodec 100 [1, 2, 3, 4, 5]
example := keep_in_memory_same_blocks toyCodec [[1, 2, 3, 4, 5], [6, 7]]
example := id_count_fits [1000, 0, 1000, 7] [1000, 0, 7] [0, 1, 0, 2] (by decide)
example := finish_order ⟨512455, 93, 55, some ⟨18, 1⟩, some ⟨20, 1⟩, ⟨6, 1⟩, some ⟨10, 12, 1⟩, 4096⟩ (by decide)
example := pad_multiple 516000 4096 (by decide)
open Sqfs.Numbering in
example := inode_numbers_bijective [.file, .dir [.file, .hlink 0, .dir [.file]], .file]
open Sqfs.Numbering in
example := inode_numbers_dense_after_reorder [.dir [.hlink 1], .dir [.file], .file]
open Sqfs.Numbering in
example := link_targets_before_linking_dirs [.dir [.hlink 1], .dir [.file], .file] (by
  simp [Sqfs.Numbering.numberRoot, Sqfs.Numbering.allocL, Sqfs.Numbering.allocT, Sqfs.Numbering.step2, Sqfs.Numbering.filesT,
    Sqfs.Numbering.filesL, Sqfs.Numbering.ValidT, Sqfs.Numbering.ValidL])
open Sqfs.Numbering in
example := children_before_parent [.file, .dir [.file, .hlink 0, .dir [.file]], .file]
example := listing_strictly_sorted [[98], [97, 0xC3], [97], [98]]
example := file_inode_values_exact (.ext 0 4294967296 0 1 0 0 0xFFFFFFFF) (Nat.le_refl 1) 4294967294 5 1 2 7 4096
example := file_inode_values_exact C03Inode.fresh C03Inode.wf_fresh 4294967296 5 1 2 7 4096

-- sizes above one metadata block
example := meta_block_le_8k toyCodec [List.replicate 9000 7, [1, 2]]
example := meta_stored_le_unpacked toyCodec toy_shrinks [List.replicate 9000 7, [1, 2]]
example := write_table_locations toyCodec 100 (List.replicate 9000 7)
example := keep_in_memory_same_blocks toyCodec [List.replicate 9000 7, [1, 2]]
set_option maxRecDepth 1000000 in
example : ((run toyCodec [List.replicate 9000 7, [1, 2]]).out.map (fun b => (b.compressed, b.stored.length, b.raw.length))) =
    [(true, 8191, 8192), (true, 809, 810)] := by decide +kernel
