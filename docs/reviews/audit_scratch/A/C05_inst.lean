import Sqfs.Props.C05
open Sqfs Sqfs.C05 Sqfs.ReaderBounds Sqfs.ReaderWalk Sqfs.ReaderTables

theorem exOk : MetaCodecOk exCfg := by intro b n h; simp [exCfg] at h
-- a config with compressed blocks, the codec producing 8192 bytes
def cCfg : MetaCfg := ⟨96, 100000, fun _ => ⟨false, 0x0064, false, some 8192⟩⟩
theorem cOk : MetaCodecOk cCfg := by intro b n h; simp [cCfg] at h; subst h; decide
abbrev m1 : MetaSt := (seek cCfg MetaSt.init 96 10).st
example : m1.dataUsed = 8192 := by decide
theorem m1le : m1.dataUsed.toNat ≤ metaCap := by decide
example := meta_seek_safe cCfg cOk m1 300 100 m1le
example : (seek cCfg m1 300 100).acc.length = 3 := by decide
example := meta_read_safe cCfg cOk m1 9000 m1le
example : (mread true cCfg m1 9000).acc.length = 7 := by decide
example := meta_read_terminates true cCfg m1 9000
example := meta_read_terminates false exCfg (seek exCfg MetaSt.init 96 10).st 1000
example := meta_history_safe cCfg cOk [.seek 96 99, .read 3, .seek 5 0, .read 2, .seek 96 100, .read 9000]
example := get_block_safe 4096 .blockOut 0x800 4096 ⟨false, some 4096⟩ (by decide) (by intro n h; cases h; decide)
example := get_fragment_safe 4096 5000 1 3000 (.ok ()) (by decide) [⟨.fragOut, 0, 904, 904⟩, ⟨.fragBlock, 3000, 904, 4096⟩] (by decide)
example := stream_fill_safe 4096 ⟨0, 0, 10000, 0, 2, false⟩ 0x800 ⟨false, some 4096⟩ (.ok 0) 0 (by decide) (by intro n h; cases h; decide)
example : (streamFill true 4096 ⟨0, 0, 10000, 0, 2, false⟩ 0x800 ⟨false, some 4096⟩ (.ok 0) 0).2.2.length > 0 := by decide
example := data_read_safe 4096 (fun _ => 0x1001000) (fun _ => true) 2 9000 4000 500 100 (.ok 4096) (by decide)
example : (dataRead 4096 (fun _ => 0x1001000) (fun _ => true) 2 9000 4000 500 100 (.ok 4096)).2.length > 1 := by decide
example := read_table_safe 10000 (fun _ => true)
example := read_table_terminates 10000 (fun _ => true)
example := read_inode_file_safe 10000 4096 0xFFFFFFFF 0 [⟨.inodeExtra, 0, 12, 12⟩] (by decide)
example := read_inode_slink_safe 5 [⟨.inodeExtra, 0, 5, 6⟩] (by decide)
example : ∀ im iu as, readInodeDirExt 10 [3, 0xFFFFFFFF, 200] = .ok (im, iu, as) → (∀ a ∈ as, a.inBounds) ∧ iu.toNat ≤ im.toNat :=
  fun im iu as h => read_inode_dir_ext_safe 10 [3, 0xFFFFFFFF, 200] im iu as h
example := read_dir_ent_safe 0xFFFF
example := readdir_progress ⟨100, 0⟩ ⟨74, 2⟩ 2 5 (by decide)
example := unpack_dir_index_safe 40 (fun o => if o == 0 then 3 else 7) 1 5
example : (unpackIdx true 40 (fun o => if o == 0 then 3 else 7) 5 0 1 []).2.length > 0 := by decide
example := resolve_compare_safe [97, 98] [97, 98, 47, 99] (by decide)
example := super_read_safe false exSuper
example : (superRead false exSuper).1 = .ok () := by decide
example := id_table_read_safe exSuper (.ok ()) (fun _ => true)
example : ∀ as, indexToId 2 1 = .ok as → ∀ a ∈ as, a.inBounds := fun as h => index_to_id_safe 2 1 as h
example : (indexToId 2 1).isOk = true ∧ (indexToId 2 1).toOption.map List.length = some 1 := by decide
example := frag_table_read_safe exSuper ⟨16, 500, 300, 900⟩ (fun _ => true) (by decide)
example : ∀ as, fragLookup 2 1 = .ok as → ∀ a ∈ as, a.inBounds := fun as h => frag_lookup_safe 2 1 as h
example : (fragLookup 2 1).isOk = true ∧ (fragLookup 2 1).toOption.map List.length = some 1 := by decide
abbrev x1 : XattrSt := (xattrLoad exSuper XattrSt.init false 96 600 false (fun i => 100 + 10 * i.toUInt64)).st
theorem x1inv : XattrInv x1 := (xattr_load_safe exSuper XattrSt.init false 96 600 false (fun i => 100 + 10 * i.toUInt64) XattrInv_init).2
example : x1.loaded = true := by decide
example := xattr_get_desc_safe exCfg exOk x1 512 x1inv
example := xattr_seek_kv_safe exCfg exOk x1 ((200 : UInt64) <<< 16 ||| 5) x1inv
abbrev m2 : MetaSt := (seek exCfg MetaSt.init 96 0).st
theorem m2le : m2.dataUsed.toNat ≤ metaCap := by decide
example := xattr_read_key_safe exCfg exOk ⟨0x101, 3, 7, ((200 : UInt64) <<< 16) ||| 5⟩ m2 m2le
example := xattr_read_value_safe exCfg exOk 96 100000 ⟨0x101, 3, 7, ((200 : UInt64) <<< 16) ||| 5⟩ m2 m2le
example := xattr_read_safe exCfg exOk 96 100000 ⟨0x101, 3, 7, ((200 : UInt64) <<< 16) ||| 5⟩ m2 m2le
example : (kvRead exCfg 96 100000 ⟨0x101, 3, 7, ((200 : UInt64) <<< 16) ||| 5⟩ m2).acc.length > 2 := by decide
example := xattr_read_all_safe exCfg exOk x1 512 5 2 (fun _ => ⟨1, 3, 7, 0⟩) x1inv
example := xattr_read_all_terminates exCfg x1 512 5 2 (fun _ => ⟨1, 3, 7, 0⟩)
example : ∀ st, openDir true 0 300 0 (fun i => if i = 5 then some 0 else none) ⟨1, 0, 0, 3, 5, 6⟩ = .ok st → st.size.toNat = 3 :=
  fun st h => by have := (open_dir_states true 0 300 0 _ ⟨1, 0, 0, 3, 5, 6⟩ st h).1; simpa using this
example := dir_entry_from_inode_safe 2 1 1 [97, 0, 98] 3 (by decide)
example := read_link_safe 5

def gT : DirGraph := ⟨fun r => if r = 0 then [1, 2] else if r = 1 then [3] else [], fun _ => true, fun r => (r % 4).toUInt32⟩
theorem gT_S : ∀ r, gT.inum r ∈ [(0 : UInt32), 1, 2, 3] := by
  intro r
  have h : r % 4 < 4 := Nat.mod_lt _ (by decide)
  simp only [gT]
  generalize r % 4 = k at h
  rcases k with _ | _ | _ | _ | k
  · decide
  · decide
  · decide
  · decide
  · omega
example := fill_dir_terminates gT [0, 1, 2, 3] gT_S 0
example : readTree gT 4 0 = .ok 3 := by decide
theorem exTree_R : ∀ r c, c ∈ exTree.entries r → exTree.isDir c = true → c ∈ [0, 1, 2, 3] := by
  intro r c h _
  simp only [exTree] at h
  split at h
  · simp at h; rcases h with rfl | rfl <;> decide
  · split at h
    · simp at h; subst h; decide
    · simp at h
example := dir_rec_terminates exTree [0, 1, 2, 3] exTree_R 0
example := fill_dir_nodes_linear exTree 4096 5 0 3 [0, 1, 2, 3] (by decide) exTree_R (by decide) (by decide)
example := dir_rec_nodes_linear exTree 4096 5 0 3 [0, 1, 2, 3] (by decide) exTree_R (by decide)
example := fill_dir_depth_bounded exChain 3 0
example := dir_rec_depth_bounded exChain 3 0
example := fill_dir_v_terminates gT 4096 [0, 1, 2, 3] gT_S 0
example := dir_rec_v_terminates exTree 4096 [0, 1, 2, 3] exTree_R 0
