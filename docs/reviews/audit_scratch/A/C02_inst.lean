import Sqfs.Props.C02
open Sqfs Sqfs.C02 Sqfs.BlockProc Sqfs.BuildEnv

-- basic hypotheses on exP / exFiles
theorem hB0 : 0 < exP.B := by decide
theorem hB : exP.B < 2 ^ 24 := by decide
theorem hfl : ∀ f ∈ exFiles, f.flags &&& Consts.blkUserSettable = f.flags := by decide
theorem hpos : ∀ x z, exP.codec.cmp x = some z → 0 < z.length := by
  intro x z h
  simp only [exP, exCodec] at h
  split at h
  · simp only [Option.some.injEq] at h; subst h; decide
  · cases h
theorem hbc : exP.byteCompare = true := rfl

example := run_eq_spec exP exCodec_ok hB0 hB 3 exFiles
example := run_sync_eq_spec exP exCodec_ok hB0 hB 3 exFiles
example := backlog_independent exP exCodec_ok hB0 hB 3 40 exFiles
example := run_ok exP exCodec_ok hB0 hB 3 exFiles hfl
-- the error case: need a run that ends in error
example : ∃ e, run (serial exP) 3 [⟨0, [1,2,3,4,5]⟩, ⟨32, [1, 2, 3]⟩] = .error e ∧ e = .unsupported := by
  cases h : run (serial exP) 3 [⟨0, [1,2,3,4,5]⟩, ⟨32, [1, 2, 3]⟩] with
  | error e => exact ⟨e, rfl, (dequeue_never_internal_error exP exCodec_ok hB0 hB 3 _ e h).1⟩
  | ok o =>
    exfalso
    have : (run (serial exP) 3 [⟨0, [1,2,3,4,5]⟩, ⟨32, [1, 2, 3]⟩]).toOption = none := by decide +kernel
    rw [h] at this; cases this
-- finish_writes_everything: hypothesis is runProc = ok s
example : ∃ s, runProc (serial exP) 3 exFiles = .ok s ∧ s.backlog = 0 := by
  cases h : runProc (serial exP) 3 exFiles with
  | ok s => exact ⟨s, rfl, (finish_writes_everything exP exCodec_ok hB0 hB 3 exFiles s h).2.2.1⟩
  | error e =>
    exfalso
    have : (runProc (serial exP) 3 exFiles).toOption.isSome = true := by decide +kernel
    rw [h] at this; cases this
example := run_eq_specPack exP exCodec_ok hpos hbc hB0 hB 3 exFiles hfl
example := run_eq_specPack_partial exP hpos { flags := 0, data := [7, 7, 7, 7] } (by decide) (by decide) (by decide)
example := run_eq_specPack_partial exP hpos { flags := 0, data := [0, 0, 0, 0] } (by decide) (by decide) (by decide)

-- RealisedBy collapses to a single behaviour on non-empty histories
theorem realised_unique (n : Nat) (beh : List Pool.Op → Pool.Ret) (h : RealisedBy n beh) (calls : List Pool.Op) (op : Pool.Op) :
    beh (calls ++ [op]) = serialAnsHist (calls ++ [op]) := by
  have := realised_eq_serial n beh h
  have h2 := congrFun (congrFun this ⟨calls, [], _, rfl⟩) op
  simp only [behAns] at h2
  rw [h2]
  unfold serialAns serialAnsHist
  rw [Pool.Serial.run_append]
  rfl

theorem rb (n : Nat) : RealisedBy n serialAnsHist := fun _ => Or.inr rfl
example := realised_eq_serial 2 serialAnsHist (rb 2)
example := schedule_independent exP exCodec_ok hB0 hB 2 serialAnsHist (rb 2) 3 exFiles
example := jobs_independent exP exCodec_ok hB0 hB 1 4 serialAnsHist serialAnsHist (rb 1) (rb 4) 3 40 exFiles
example := threaded_eq_specPack exP exCodec_ok hpos hbc hB0 hB 2 serialAnsHist (rb 2) 3 exFiles hfl
example := threaded_readback exP exCodec_ok hpos hbc hB0 hB 2 serialAnsHist (rb 2) 3 exFiles hfl 1 (by decide)
example := threaded_directives exP exCodec_ok hpos hbc hB0 hB 2 serialAnsHist (rb 2) 3 exFiles hfl
example := script_schedule_independent true exP 2 serialAnsHist (rb 2) 3 [.file ⟨0, [1,2,3,4,5]⟩, .submit 0 [1,2], .sync]

-- stateful codec: a history-independent one with real state (counter)
def cntCodec : StatefulCodec Nat :=
  { init := 0
    doBlock := fun s x => (s + 1, if x = [7, 7, 7, 7] then some [7, 4] else none)
    unc := fun z => if z = [7, 4] then some [7, 7, 7, 7] else some z }

theorem cnt_hi : cntCodec.HistoryIndependent := by intro s x; rfl
theorem cnt_ok : CodecOk cntCodec.pure := exCodec_ok
example : (cntCodec.doBlock 0 [1]).1 ≠ cntCodec.init := by decide
example := stateful_pool_is_pure exP cntCodec cnt_hi (fun t => t % 2) (fun _ => 5) 0 leakyItems
example := schedule_independent_stateful exP cntCodec cnt_hi cnt_ok hB0 hB 2 serialAnsHist (rb 2) 3 exFiles

-- failure_deterministic_partial on the witness
abbrev fP : Params := { B := 4, codec := Sqfs.ToyCodec.codec 4, h := fun _ => 0 }
example : ∃ e, runV true (failParams fP Sqfs.Witness.C02.marked (-3)) 3 [Sqfs.Witness.C02.wFile] = .error e := by
  cases hr : runProcV true (declined fP Sqfs.Witness.C02.marked) 3 [Sqfs.Witness.C02.wFile] with
  | error e =>
    exfalso
    have : (runProcV true (declined fP Sqfs.Witness.C02.marked) 3 [Sqfs.Witness.C02.wFile]).toOption.isSome = true := by decide +kernel
    rw [hr] at this; cases this
  | ok s₀ =>
    refine failure_deterministic_partial fP Sqfs.Witness.C02.marked (-3) 3 [Sqfs.Witness.C02.wFile] s₀ hr ⟨0, ?_, ?_⟩
    · have : (runProcV true (declined fP Sqfs.Witness.C02.marked) 3 [Sqfs.Witness.C02.wFile]).toOption.map
          (fun s => decide (0 ∈ s.pool.ser.processed)) = some true := by decide +kernel
      rw [hr] at this; simpa [Except.toOption] using this
    · have : (runProcV true (declined fP Sqfs.Witness.C02.marked) 3 [Sqfs.Witness.C02.wFile]).toOption.map
          (fun s => decide (rcOfTable Sqfs.Witness.C02.marked (-3) s.pool.table 0 ≠ 0)) = some true := by decide +kernel
      rw [hr] at this; simpa [Except.toOption] using this

-- failed_item_back_status_nonzero: two workers, two items, callback fails on item 0
def fcfg : Pool.Cfg := ⟨true, fun d => if d = 0 then -3 else 0⟩
def fsched : List Pool.Choice :=
  [.main (.call (.submit 0)), .main (.cont false), .main (.call (.submit 1)), .main (.cont false),
   .worker 0 false, .worker 1 false, .worker 1 false, .worker 1 false, .worker 0 false, .worker 0 false,
   .main (.call .dequeue), .main (.cont false)]
example : (Pool.run fcfg (Pool.init 2) fsched).returned = [0] ∧ (Pool.run fcfg (Pool.init 2) fsched).submitted = [0, 1] := by decide
example : (Pool.run fcfg (Pool.init 2) fsched).status ≠ 0 :=
  failed_item_back_status_nonzero (Sqfs.C09.run_reachable fcfg 2 fsched) 0 (by decide) 0 (by decide) (by decide)

-- environment
example := times_depend_only_on_source_date_epoch ⟨some [49, 50], 1700000000, [85, 84, 67], [67], 18, [47]⟩
  ⟨some [49, 50], 42, [], [], 63, []⟩ {} [5, -1] rfl
example := source_date_epoch_default [0x61, 0x62] (by decide)
example := source_date_epoch_default [52, 50, 57, 52, 57, 54, 55, 50, 57, 54] (by decide)  -- 4294967296: too large
open Sqfs.FsTree in
example := tree_order_bytewise [TNode.mk [0x61] default [], .mk [0x42] default [], .mk [0x5f, 0x78] default []] (by decide)
  [TNode.mk [0x42] default [], .mk [0x5f, 0x78] default [], .mk [0x61] default []]
  (List.perm_append_comm (l₁ := [TNode.mk [0x42] default [], .mk [0x5f, 0x78] default []]) (l₂ := [TNode.mk [0x61] default []])) (by decide)
example := stateful_worker_schedule_dependent
example := exCodec_ok
