import Sqfs.Props.C11
open Sqfs Sqfs.C11 Sqfs.FsTree
theorem some_of_isSome {α} (x : Option α) (h : x.isSome = true) : ∃ a, x = some a := Option.isSome_iff_exists.1 h

def st (mode ino : Nat) : Stat := { mode := mode, uid := 0, gid := 0, mtime := 0, dev := 1, ino := ino, rdev := 0 }
def fa : HNode := .mk [0x61] (st 0o100644 10) [] []
def fb : HNode := .mk [0x62] (st 0o100644 11) [] []
def fc : HNode := .mk [0x63] (st 0o100644 10) [] []
def fe' : HNode := .mk [0x65] (st 0o100644 10) [] []
def dd (c : List HNode) : HNode := .mk [0x64] (st 0o040755 12) [] c
def E1 := [fa, fb, fc, dd [fa, fb]]
def E2 := [dd [fb, fa], fc, fb, fa]
theorem fp : FPerm E1 E2 := by
  have h1 : FPerm [fa, fb, fc, dd [fa, fb]] [fa, fb, dd [fa, fb], fc] :=
    FPerm.cons FPerm.nil (FPerm.cons FPerm.nil (FPerm.swap _ _ _))
  have h2 : FPerm [fa, fb, dd [fa, fb], fc] [fa, dd [fa, fb], fb, fc] := FPerm.cons FPerm.nil (FPerm.swap _ _ _)
  have h3 : FPerm [fa, dd [fa, fb], fb, fc] [dd [fa, fb], fa, fb, fc] := FPerm.swap _ _ _
  have h4 : FPerm [dd [fa, fb], fa, fb, fc] [dd [fb, fa], fa, fb, fc] := FPerm.cons (FPerm.swap _ _ _) (fperm_refl _)
  have h5 : FPerm [dd [fb, fa], fa, fb, fc] [dd [fb, fa], fc, fb, fa] :=
    FPerm.cons (fperm_refl _)
      (FPerm.trans (FPerm.swap _ _ _) (FPerm.trans (FPerm.cons FPerm.nil (FPerm.swap _ _ _)) (FPerm.swap _ _ _)))
  exact FPerm.trans h1 (FPerm.trans h2 (FPerm.trans h3 (FPerm.trans h4 h5)))
theorem wf1 : WFList E1 := by simp [E1, WFList, WFNode, HNode.name, fa, fb, fc, dd]
def wcfg : Cfg :=
  { flags := Consts.dirScanKeepUid ||| Consts.dirScanKeepGid ||| Consts.dirScanKeepMode, defUid := 0,
    defGid := 0, defMode := 0, defMtime := 0, pfx := [], filePrefix := none, pattern := none }
def wd : Defaults := { uid := 0, gid := 0, mtime := 0, mode := 0o755 }
def fnm : Fnm := fun _ _ _ => true
example := scan_perm_invariant fp wf1 wd wcfg fnm 1
#eval (packDir true wd wcfg fnm 1 E1).isSome
#eval (packDir true wd wcfg fnm 1 E1).map (fun r => r.files)
#eval (packDir false wd wcfg fnm 1 E1).map (fun r => r.files)
#eval (packDir false wd wcfg fnm 1 E2).map (fun r => r.files)
example := scan_perm_invariant_glob fp wf1 wd wcfg fnm 1 [[0x78]] (initRoot wd) []
#eval (globInto true wd wcfg fnm 1 E1 [[0x78]] (initRoot wd) []).isSome
example := pack_order_invariant fp wf1 wd wcfg fnm 1 (some [⟨5, 4, false, false, [0x62]⟩])
#eval (packOrder true wd wcfg fnm 1 E1 (some [⟨5, 4, false, false, [0x62]⟩])).isSome
example := sort_files_perm_sorted_stable (fun p s _ => p == s || p == [0x2a]) [⟨5, 4, false, false, [0x62]⟩, ⟨-1, 0, true, true, [0x2a]⟩] [[[0x61]], [[0x62]], [[0x63]]]
-- insertSorted
def tn (n : Name) : TNode := .mk n default []
example := insertSorted_perm (l₁ := [tn [0x63], tn [0x61], tn [0x62]]) (l₂ := [tn [0x61], tn [0x62], tn [0x63]])
  ((List.Perm.swap _ _ _).trans (List.Perm.cons _ (List.Perm.swap _ _ _))) (by decide) [tn [0x60]]
example := insertSorted_sorted (tn [0x62]) [tn [0x61], tn [0x63]] (by decide) (by decide)
def nm (n : Name) : HNode := .mk n default [] []
example := compare_names_total_order (nm [0x61]) (nm [0x61, 0x80]) (nm [0x62])
def strm := [nm [0x63], nm [0x2e, 0x2e], nm [0x61, 0xff], nm [0x2e], nm [0x61]]
example := read_names_sorted strm (by decide)
example := read_names_perm (s₁ := [nm [0x63], nm [0x61], nm [0x62]]) (s₂ := [nm [0x61], nm [0x63], nm [0x62]]) (List.Perm.swap _ _ _) (by decide)
example := qsort_any_conforming [nm [0x62], nm [0x61]] [nm [0x61], nm [0x62]] (by decide) (List.Perm.swap _ _ _) (by
  simp only [List.pairwise_cons, List.mem_cons, List.not_mem_nil, or_false, forall_eq, List.Pairwise.nil, and_true,
    false_imp_iff, implies_true]
  decide)
-- numbering
def E3 := [fa, fb, fc, fe']
theorem wf3 : WFList E3 := by simp [E3, WFList, WFNode, HNode.name, fa, fb, fc, fe']
example : True := by
  obtain ⟨⟨t, links⟩, h⟩ := some_of_isSome (scanInto true wd wcfg fnm 1 E3 (initRoot wd) []) (by decide)
  have hl : (scanInto true wd wcfg fnm 1 E3 (initRoot wd) []).map (·.2) = some [[[0x65]], [[0x63]]] := by decide
  rw [h] at hl; simp at hl; subst hl
  have := pack_dir_links_order_free (links' := [[[0x63]], [[0x65]]]) rfl wf3 h (List.Perm.swap _ _ _)
  trivial
def wscan : TNode × List Path := (scanInto true wd wcfg fnm 1 E3 (initRoot wd) []).getD (initRoot wd, [])
theorem wflat : FlatLinks wscan.1 [[[0x65]], [[0x63]]] := by
  intro p hp
  simp only [List.mem_cons, List.not_mem_nil, or_false] at hp
  rcases hp with rfl | rfl
  · exact ⟨[[0x61]], flatAt_of_flatAtB (by decide)⟩
  · exact ⟨[[0x61]], flatAt_of_flatAtB (by decide)⟩
example := numbering_deterministic (links₂ := [[[0x63]], [[0x65]]]) (List.Perm.swap _ _ _) wscan.1 wflat
#eval (postProcess wscan.1 [[[0x65]], [[0x63]]]).isSome
example : True := by
  obtain ⟨r, h⟩ := some_of_isSome (packDir false wd wcfg fnm 1 [fc, fb, fa]) (by decide)
  have := scan_tree_sorted false wd wcfg fnm 1 [fc, fb, fa] r h
  trivial
example : True := by
  obtain ⟨⟨t, l⟩, h⟩ := some_of_isSome (globInto true wd wcfg fnm 1 [fc, fb, fa] [[0x78]] (initRoot wd) []) (by decide +kernel)
  have := glob_tree_sorted true wd wcfg fnm 1 [fc, fb, fa] [[0x78]] (initRoot wd) [] (initRoot_allSorted wd) t l h
  trivial
