import Sqfs.Props.C09
open Sqfs Sqfs.Pool
-- bounded search: can two workers be `.locked` at once in the fine model? (3 workers, depth 9)
def choices : List Choice := [.worker 0 false, .worker 1 false, .worker 0 true, .main (.call (.submit 1)), .main (.cont false), .main (.call .dequeue)]
def nLocked (fs : FState) : Nat := (fs.fw.filter (·.isLocked)).length + (if fs.fm.isLocked then 1 else 0)
partial def search (cfg : Cfg) : Nat → FState → Bool
  | 0, fs => nLocked fs ≥ 2
  | d+1, fs => nLocked fs ≥ 2 || choices.any (fun c => match fstep cfg fs c with | some fs' => search cfg d fs' | none => false)
#eval search ⟨true, fun _ => 0⟩ 8 (finit 2)
