import Sqfs.Props.C11
open Sqfs.C11
#print axioms insertSorted_perm
#print axioms insertSorted_sorted
#print axioms compare_names_total_order
#print axioms read_names_sorted
#print axioms read_names_perm
#print axioms qsort_any_conforming
#print axioms scan_perm_invariant
#print axioms scan_perm_invariant_glob
#print axioms pack_order_invariant
#print axioms sort_files_perm_sorted_stable
#print axioms numbering_deterministic
#print axioms pack_dir_links_order_free
#print axioms scan_tree_sorted
#print axioms glob_tree_sorted
