import Sqfs.Props.C08
open Sqfs Sqfs.C08 Sqfs.BlockWriter

theorem ok_of_isSome {ε α} (x : Except ε α) (h : x.toOption.isSome = true) : ∃ a, x = .ok a := by
  cases x with
  | error e => simp [Except.toOption] at h
  | ok a => exact ⟨a, rfl⟩

theorem err_of_isNone {ε α} (x : Except ε α) (h : x.toOption.isNone = true) : ∃ e, x = .error e := by
  cases x with
  | error e => exact ⟨e, rfl⟩
  | ok a => simp [Except.toOption] at h
theorem szEx : sizesOk exCalls := by unfold sizesOk; decide
theorem szExF : sizesOk exCallsF := by unfold sizesOk; decide
def locsEx : List Nat := [0, 2, 2, 4, 6, 2]
example : True := by
  obtain ⟨s, locs, hr, _⟩ := bw_no_error [] exCalls szEx (by decide)
  have h1 := bw_readback [] exCalls szEx (by decide) s locs hr
  have h2 := bw_readback_all [] exCalls szEx (by decide) s locs hr
  have h3 := bw_share_complete [] exCalls szEx (by decide) s locs hr
  have hl : (run (init []) exCalls).toOption.map (·.2) = some locsEx := by decide
  rw [hr] at hl; simp [Except.toOption] at hl; subst hl
  have h4 := bw_share_sound [] exCalls szEx (by decide) s locsEx hr
    ⟨2, [⟨mkWord 2 (exFirst ||| exLast), 7, [0x41,0x42]⟩]⟩ ⟨2, [⟨mkWord 2 exFirst, 7, [0x41,0x42]⟩, ⟨mkWord 2 0, 7, [0x41,0x42]⟩, ⟨mkWord 2 exLast, 7, [0x41,0x42]⟩]⟩ (by decide) (by decide) rfl (by decide)
  trivial
example : True := by
  obtain ⟨s, locs, hr, _⟩ := bw_no_error [0xAA] exCallsF szExF (by decide)
  have h1 := bw_fragblocks_kept [0xAA] exCallsF szExF (by decide) s locs hr
  have h2 := bw_readback_all [0xAA] exCallsF szExF (by decide) s locs hr
  trivial
example := bw_refines_spec (fun _ => 7) [] (exCalls.map fun c => (c.flags, c.data)) (by decide)
example := bw_checksum_irrelevant (fun _ => 7) (fun b => (b.headD 0).toUInt32) [] (exCalls.map fun c => (c.flags, c.data)) (by decide)
example := bw_translate [9,9,9] [] exCalls

section F
open Sqfs.FragDedup
theorem evOk : evsOk exEvs := by
  intro e he
  simp [exEvs] at he
  rcases he with rfl | rfl | rfl | rfl | rfl | rfl | rfl | rfl | rfl | rfl <;> simp [Ev.ok, fragOk, FragDedup.hasFlag]
abbrev tc := Sqfs.ToyCodec.codec 8
theorem trt : tc.RoundTrip := Sqfs.ToyCodec.codec_roundTrip 8
example : True := by
  obtain ⟨⟨rs, st⟩, hr⟩ := ok_of_isSome (FragDedup.run tc (fun _ => 0) true 8 {} exEvs) (by decide)
  have h1 := frag_sound tc trt (fun _ => 0) 8 exEvs evOk rs st hr
  have h2 := frag_share tc trt (fun _ => 0) 8 exEvs evOk rs st hr [1,1,2] 0 (by simp [fragOk]) (by decide) (by decide) (by decide)
  have h3 := frag_lookup_unique tc trt (fun _ => 0) 8 exEvs evOk rs st hr [1,1,2] 0 0 st.table.reverse (List.reverse_perm _)
  trivial
-- frag_no_error: an erroring run with evsOk
example : True := by
  obtain ⟨e, he⟩ := err_of_isNone (FragDedup.run tc (fun _ => 0) true 8 {} [.frag [1,1,1] 0, .written 3]) (by decide)
  have := frag_no_error tc trt (fun _ => 0) 8 [.frag [1,1,1] 0, .written 3] (by intro e he; simp at he; rcases he with rfl | rfl <;> simp [Ev.ok, fragOk]) e he
  trivial
-- fragSoundOk is falsifiable: byteCompare = false
#eval (FragDedup.run Sqfs.ToyCodec.ident (fun _ => 0) false 8 {} [.frag [1, 2, 3] 0, .frag [1, 2, 4] 0]).toOption.map (fun r => fragSoundOk Sqfs.ToyCodec.ident r.2 [.frag [1, 2, 3] 0, .frag [1, 2, 4] 0] r.1)
end F

section S
open Sqfs.C08Stream
abbrev tc4 := Sqfs.ToyCodec.codec 4
example : True := by
  obtain ⟨⟨s, outs⟩, hr⟩ := ok_of_isSome (C08Stream.run tc4 (fun _ => 0) (C08Stream.init 4 []) exStream) (by decide)
  have h1 := stream_wfS tc4 (fun _ => 0) 4 [] exStream s outs hr
  have h2 := stream_readback tc4 (Sqfs.ToyCodec.codec_roundTrip 4) (fun _ => 0) 4 (by decide) (by decide) (Sqfs.ToyCodec.codec_fits 4) [] exStream s outs hr
  have hb : (C08Stream.run tc4 (fun _ => 0) (C08Stream.init 4 []) exStream).toOption.map (fun r => (r.1.fd.blocks[1]?).map (fun b => (b.data, b.place, b.flags))) = some (some ([5,5,5], .written [5,3] true, 16384)) := by decide
  rw [hr] at hb; simp [Except.toOption] at hb
  obtain ⟨b, hb1, hb2, hb3, hb4⟩ := hb
  have hb : s.fd.blocks[1]? = some ⟨[5,5,5], .written [5,3] true, 16384⟩ := by
    rw [hb1]; cases b; simp_all
  have h3 := stream_frag_link tc4 (Sqfs.ToyCodec.codec_roundTrip 4) (fun _ => 0) 4 (by decide) (by decide) (Sqfs.ToyCodec.codec_fits 4) [] exStream s outs hr 1 [5,5,5] [5,3] true 16384 hb (by decide)
  have h4 := stream_frag_sound tc4 (Sqfs.ToyCodec.codec_roundTrip 4) (fun _ => 0) 4 (by decide) (Sqfs.ToyCodec.codec_fits 4) [] exStream s outs hr
  trivial
#eval (C08Stream.run tc4 (fun _ => 0) (C08Stream.init 4 []) exStream).toOption.map (fun r => r.1.fd.blocks)
example : True := by
  obtain ⟨e, he⟩ := err_of_isNone (C08Stream.run tc4 (fun _ => 0) (C08Stream.init 4 []) [.file 0 [1, 1, 1, 1, 7, 8], .submit, .finish]) (by decide)
  have := stream_no_error tc4 (Sqfs.ToyCodec.codec_roundTrip 4) (fun _ => 0) 4 (by decide) (by decide) (Sqfs.ToyCodec.codec_fits 4) [] _ e he
  trivial
end S
