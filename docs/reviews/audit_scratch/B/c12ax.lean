import Sqfs.Props.C12
open Sqfs.C12
#print axioms read_at_spec
#print axioms read_at_never_short
#print axioms write_at_spec
#print axioms write_at_never_short
#print axioms write_all_spec
#print axioms write_all_never_short
#print axioms istream_bytes
#print axioms client_history_script_independent
#print axioms read_skip_splice_spec
#print axioms get_line_chunking_independent
#print axioms record_to_memory_spec
#print axioms xfrm_istream_chunking_independent
#print axioms xfrm_ostream_script_independent
#print axioms tar_member_stream_chunking_independent
#print axioms tar_member_run_chunking_independent
#print axioms tar_member_run_decompressed_chunking_independent
