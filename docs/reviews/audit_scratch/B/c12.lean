import Sqfs.Props.C12
open Sqfs Sqfs.C12 Sqfs.IoLoops Sqfs.IoLoops.Spec

def sc1 : OS := ⟨[.part 0, .eintr, .part 1, .eintr, .eintr], []⟩
def scHard : OS := ⟨[.part 0, .err, .part 1], []⟩
def file9 : Bytes := [0,1,2,3,4,5,6,7,8]
example := read_at_spec file9 2 5 sc1 (by decide)
example := read_at_spec file9 6 5 sc1 (by decide)
example := read_at_never_short file9 2 5 scHard
example := write_at_spec file9 9 7 [170,187,204] sc1 (by decide)
example := write_at_never_short file9 9 7 [170,187,204] scHard
def oops : List OOp := [.data [1,2], .hole 5, .data [3], .flush, .data [4,5,6], .flush]
example := write_all_spec oops (OStream.init false) 0 sc1 (by decide)
example := write_all_spec oops (OStream.init true) 0 sc1 (by decide)
example := write_all_never_short oops (OStream.init false) 0 scHard
#eval (runOOps 0 (OStream.init false) oops scHard).1
#eval (runOOps 0 (OStream.init false) oops sc1).2.1
def dat : Bytes := [97,98,10,99,100,13,10,10,101]
def cops : List Op := [.get 0, .adv 1, .get 3, .read 2, .line 7, .skip 1, .splice 2, .line 7, .record 1]
example := istream_bytes 4 (by decide) dat cops (OStream.init false) 0 sc1 (by decide)
example := client_history_script_independent 4 (by decide) dat cops (OStream.init false) 0 sc1 (by decide)
#eval (runOps (fileStream 4) ⟨IStream.init dat, OStream.init false, 0⟩ cops sc1).1
example := read_skip_splice_spec 4 (by decide) dat (IStream.init dat) ⟨0,0⟩ (rel_init 4 dat) (by simp [Iv]) (OStream.init false) rfl rfl 3 sc1 (by decide)
-- from a later state (after one read)
example : True := by
  obtain ⟨_, _, _, _, ⟨t', hr, hi, hp⟩, _, _⟩ := read_skip_splice_spec 4 (by decide) dat (IStream.init dat) ⟨0,0⟩ (rel_init 4 dat) (by simp [Iv]) (OStream.init false) rfl rfl 3 sc1 (by decide)
  have h2 := read_skip_splice_spec 4 (by decide) dat _ t' hr hi (OStream.init false) rfl rfl 20 sc1 (by decide)
  have h3 := get_line_chunking_independent 4 (by decide) dat _ t' hr hi 7 [] 0 sc1 (by decide)
  have h4 := record_to_memory_spec 4 (by decide) dat _ t' hr hi 2 sc1 (by decide)
  trivial
example := get_line_chunking_independent 4 (by decide) dat (IStream.init dat) ⟨0,0⟩ (rel_init 4 dat) (by simp [Iv]) 7 [] 0 sc1 (by decide)
example (d : Bytes) (hd : d.length = 600) := record_to_memory_spec 4 (by decide) d (IStream.init _) ⟨0,0⟩ (rel_init 4 _) (by simp [Iv]) 100 sc1 (by decide)
example := record_to_memory_spec 4 (by decide) (dat ++ dat) (IStream.init _) ⟨0,0⟩ (rel_init 4 _) (by simp [Iv]) 3 sc1 (by decide)
-- a toy codec: doubles each input byte; consumes all input
def dbl : Codec Nat := ⟨fun k inp room fin => (k + 1, inp.length, inp.flatMap (fun b => [b, b]), if fin then .end_ else .ok)⟩
#check @Codec.proc
example := xfrm_istream_chunking_independent dbl 0 8 100 4 (by decide) dat cops (OStream.init false) 0 sc1 (by decide)
#eval (runOps (xfrmStream (fileStream 4) dbl 8 100) ⟨⟨IStream.init dat, 0, 0, []⟩, OStream.init false, 0⟩ [.get 3, .read 4, .line 7] sc1).1
example := xfrm_ostream_script_independent dbl 8 100 oops ⟨OStream.init false, 0, []⟩ sc1 (by decide)
#eval (xRunOOps dbl 8 100 0 ⟨OStream.init false, 0, []⟩ oops sc1).1
example := tar_member_stream_chunking_independent 4 (by decide) [1,2,3] _ _
  (⟨⟨rel_init 4 [1,2,3], rfl, rfl, rfl, rfl, rfl, rfl, rfl, rfl⟩, rfl, rfl, rfl⟩ : TRel (Rel 4 [1,2,3]) (tarOpen ((TarIt.init (IStream.init [1,2,3])).setMember ⟨3, 3, []⟩))
    (tarOpen ((TarIt.init (⟨0, 0⟩ : Ideal)).setMember ⟨3, 3, []⟩)))
  [.read 2, .get 100, .read 100] (OStream.init false) 0 sc1 (by decide)
def tarDat : Bytes := [1] ++ List.replicate 511 0 ++ [11,12,13,14,15] ++ List.replicate 507 0 ++ List.replicate 1024 0
example := tar_member_run_chunking_independent 4 (by decide) tarDat ⟨5, 9, [⟨2,3⟩,⟨7,2⟩]⟩ (OStream.init false) [.read 4, .get 100, .read 100, .get 1] sc1 (by decide)
#eval (tarMemberRun (fileStream 4) (IStream.init tarDat) ⟨5, 9, [⟨2,3⟩,⟨7,2⟩]⟩ (OStream.init false) [.read 4, .get 100, .read 100, .get 1] sc1).2.1
#eval (tarMemberRun (fileStream 4) (IStream.init tarDat) ⟨5, 9, [⟨2,3⟩,⟨7,2⟩]⟩ (OStream.init false) [.read 4, .get 100, .read 100, .get 1] sc1).2.2.1
example := tar_member_run_decompressed_chunking_independent dbl 0 8 100 4 (by decide) tarDat ⟨5, 9, [⟨2,3⟩,⟨7,2⟩]⟩ (OStream.init false) [.read 4, .get 100] sc1 (by decide)
