import Sqfs.Props.C10
open Sqfs Sqfs.C10 Sqfs.MetaReader Sqfs.Consts Sqfs.C10P

def exFile : File :=
  { size := 10, byte := fun i => ([0x04, 0x80, 0x61, 0x62, 0x63, 0x64, 0x02, 0x80, 0x78, 0x79] : List UInt8).getD i 0,
    bad := fun _ => false }
def badFile : File := { exFile with bad := fun i => i == 8 }
def hist : List Op := [.seek 0 0, .seek 6 3, .read 2, .pos]
theorem h10 : (10 : Nat) ≤ NONE := by decide
example := coherent_init exFile toyUnc 0 10 h10
example := coherent_seek badFile toyUnc toyUnc_ok _ (coherent_init badFile toyUnc 0 10 h10) 6 0
example := coherent_read exFile toyUnc toyUnc_ok _ (coherent_seek exFile toyUnc toyUnc_ok _ (coherent_init exFile toyUnc 0 10 h10) 0 2) 4
example := coherent_run badFile toyUnc toyUnc_ok 0 10 h10 hist
example := meta_history_independent badFile toyUnc toyUnc_ok 0 10 h10 hist 0 0 [2,2,1]
#eval (answer true badFile toyUnc (run true badFile toyUnc (fresh 0 10) hist) 0 0 [2,2,1])
#eval (answer true exFile toyUnc (run true exFile toyUnc (fresh 0 10) hist) 0 0 [2,2,1])
example := meta_answer_depends_on_image_and_query_only exFile toyUnc toyUnc_ok 0 10 h10 hist [.seek 6 0] 0 0 [2,2,1]
example := read_no_crash exFile toyUnc toyUnc_ok 0 10 h10 hist 5
-- failed miss: seek 6 on badFile from fresh
example := failed_miss_unpositions badFile toyUnc (fresh 0 10) 6 0 (by decide) (by decide) (by decide +kernel)
example := failed_miss_unpositions exFile toyUnc (seek true exFile toyUnc (fresh 0 10) 0 0).2 6 3 (by decide +kernel) (by decide +kernel) (by decide +kernel)
example := seek_then_position exFile toyUnc toyUnc_ok (fresh 0 10) 6 1 (by decide +kernel)

-- data reader
def exData : File :=
  { size := 17, byte := fun i => ([1, 2, 3, 4, 5, 6, 7, 8, 3, 8, 0, 0x55, 0xa0, 0xa1, 0xa2, 0xa3, 0xa4] : List UInt8).getD i 0,
    bad := fun _ => false }
def exIno : DataReader.Inode := { fileSize := 19, blocksStart := 0, fragIdx := 0, fragOff := 1, blocks := [16777224, 4] }
def exTbl : List (Nat × Nat) := [(12, 16777221)]
def ino2 : DataReader.Inode := { fileSize := 8, blocksStart := 0, fragIdx := 4294967295, fragOff := 0, blocks := [16777224] }
theorem consT (i : DataReader.Inode) : DataReader.ConsIno true (fun _ => 0) i := fun _ _ => Or.inl rfl
def dhist : List DataReader.OpX := [.read exIno 0 19, .frag exIno, .sget (DataReader.streamOpen 8 exIno) 3, .reload (.ok exTbl), .read ino2 3 20]
theorem dhistCons : DataReader.OpsCons true (fun _ => 0) dhist := by
  intro op _; cases op <;> first | exact consT _ | trivial
example := data_coherent_init true exData toyUnc (fun _ => 0) 8 exTbl
example := data_coherent_read true exData toyUnc (fun _ => 0) toyUnc_ok _ (data_coherent_init true exData toyUnc (fun _ => 0) 8 exTbl) exIno (consT _) 3 12
example := data_coherent_run true false exData toyUnc (fun _ => 0) toyUnc_ok 8 exTbl dhist dhistCons
example := data_api_eq_cacheless true false exData toyUnc (fun _ => 0) toyUnc_ok 8 exTbl dhist dhistCons
example := data_history_independent false exData toyUnc toyUnc_ok 8 exTbl dhist
#eval (DataReader.read true exData toyUnc (DataReader.runX true false exData toyUnc (DataReader.fresh 8 exTbl) dhist) exIno 3 14).1
-- old code, kw = false
theorem cons2 : DataReader.ConsIno false (fun _ => 16777224) ino2 := by
  unfold DataReader.ConsIno DataReader.Cons; decide
def dhist2 : List DataReader.OpX := [.read ino2 0 8, .frag exIno, .read ino2 3 2]
example := data_history_independent_written exData toyUnc (fun _ => 16777224) toyUnc_ok 8 exTbl dhist2
  (by intro op h; simp [dhist2] at h; rcases h with rfl | rfl | rfl <;> first | exact cons2 | trivial) ino2 cons2 1 5
-- stream_fail_stops: stream over a file whose data block is unreadable
def badData : File := { exData with bad := fun i => i == 2 }
#eval (DataReader.streamGet true badData toyUnc (DataReader.fresh 8 exTbl) (DataReader.streamOpen 8 exIno)).1
example := stream_fail_stops badData toyUnc (DataReader.fresh 8 exTbl) (DataReader.fresh 8 exTbl) (DataReader.streamOpen 8 exIno) errIo (by decide +kernel)
-- early path (fragment failure)
def badFrag : File := { exData with bad := fun i => i == 13 }
def inoFragOnly : DataReader.Inode := { fileSize := 3, blocksStart := 0, fragIdx := 0, fragOff := 1, blocks := [] }
#eval (DataReader.streamGet true badFrag toyUnc (DataReader.fresh 8 exTbl) (DataReader.streamOpen 8 inoFragOnly)).1
example := stream_fail_stops badFrag toyUnc (DataReader.fresh 8 exTbl) (DataReader.fresh 8 exTbl) (DataReader.streamOpen 8 inoFragOnly) errIo (by decide +kernel)

theorem exWritten : DataReader.Written exData toyUnc 8 exTbl exIno [[1, 2, 3, 4, 5, 6, 7, 8], List.replicate 8 0x55] [0xa1, 0xa2, 0xa3] where
  bsPos := by decide
  bsU32 := by decide
  small := by decide
  blocks := by
    refine ⟨_, _, rfl, by decide, Or.inr ⟨by decide, by decide, [1, 2, 3, 4, 5, 6, 7, 8], by decide +kernel, Or.inr ⟨by decide, by decide, rfl⟩⟩, ?_⟩
    refine ⟨_, _, rfl, by decide, Or.inr ⟨by decide, by decide, [3, 8, 0, 0x55], by decide +kernel, Or.inl ⟨by decide, by decide, by decide, ?_⟩⟩, rfl⟩
    intro room hr
    have h8 : (8 : Nat) ≤ room := hr
    simp [toyUnc, h8]
  covered := by decide
  tailLen := by decide
  tailShort := by decide
  frag := fun _ => ⟨(12, 16777221), ([0xa0, 0xa1, 0xa2, 0xa3, 0xa4, 0, 0, 0], 5), by decide, by decide +kernel, by decide, by decide, by decide⟩
example := read_eq_blocks_plus_fragment _ _ _ _ _ _ _ exWritten
example := stream_eq_read _ _ _ _ _ _ _ exWritten
example := written_file_content _ _ _ _ _ _ _ exWritten

-- part 3
def exImg : File :=
  { size := 77,
    byte := fun i => ([0x34, 0x80,
      0x06, 0x00, 0xA4, 0x01, 0, 0, 0, 0, 0, 0, 0, 0, 0x02, 0, 0, 0, 0x01, 0, 0, 0,
      0x01, 0x00, 0xED, 0x01, 0, 0, 0, 0, 0, 0, 0, 0, 0x01, 0, 0, 0, 0, 0, 0, 0, 0x02, 0, 0, 0, 0x18, 0, 0, 0, 0, 0, 0, 0,
      0x15, 0x80,
      0, 0, 0, 0, 0, 0, 0, 0, 0x02, 0, 0, 0, 0, 0, 0, 0, 0x06, 0, 0, 0, 0x61] : List UInt8).getD i 0,
    bad := fun _ => false }
def exDir : DirRd := { inodeStart := 0, dirStart := 54, rootRef := 20, blockSize := 4096 }
def exWin : Nat → Nat × Nat := fun k => if k = 0 then (0, 54) else (54, 77)
def exHist : Nat → List Op := fun k => if k = 0 then [.seek 0 0, .seek 0 100, .read 3] else [.seek 54 3, .read 50]
theorem exWinOk : ∀ k, (exWin k).2 ≤ NONE := by intro k; unfold exWin; split <;> decide
def prog1 : Prog Bytes := .seek 0 0 0 (.read 0 4 fun b => .pos 0 fun _ => .ret b)
example := prog_history_independent exImg toyUnc toyUnc_ok exWin exWinOk exHist prog1 (by simp [prog1, C10P.WF])
def sess1 : Session Bytes Nat := .call prog1 fun r => .call prog1 fun r2 => .done 1
example := session_history_independent exImg toyUnc toyUnc_ok exWin exWinOk exHist sess1 (by simp [sess1, Session.WF, prog1, C10P.WF]) [exHist, exHist]
example := inode_by_ref_history_independent exImg toyUnc toyUnc_ok exWin exWinOk exHist exDir 0
def it0 : Rd := ⟨0, 54, 0, 24, 0, 0⟩
example := readdir_call_history_independent exImg toyUnc toyUnc_ok exWin exWinOk exHist exDir it0
example := dir_listing_history_independent exImg toyUnc toyUnc_ok exWin exWinOk exHist exDir 5 it0 [exHist, exHist]
example := dir_list_history_independent exImg toyUnc toyUnc_ok exWin exWinOk exHist exDir 20
example := path_resolution_history_independent exImg toyUnc toyUnc_ok exWin exWinOk exHist exDir [0x2f, 0x61]
theorem famCoh : ∀ k, Coherent exImg toyUnc (usedFam exImg toyUnc exWin exHist k) := fun k => coherent_run exImg toyUnc toyUnc_ok _ _ (exWinOk k) _
example := listing_fuel_suffices exImg toyUnc toyUnc_ok _ famCoh exDir 20
example := path_fuel_suffices exImg toyUnc toyUnc_ok _ famCoh exDir [0x2f, 0x61]
def exKv : File :=
  { size := 35,
    byte := fun i => ([0x21, 0x80,
      0x02, 0, 0, 0, 0x76, 0x76,
      0x00, 0x01, 0x01, 0x00, 0x6b,  0x08, 0, 0, 0,  0, 0, 0, 0, 0, 0, 0, 0,
      0x00, 0x00, 0x01, 0x00, 0x6a,  0x01, 0, 0, 0, 0x77] : List UInt8).getD i 0,
    bad := fun _ => false }
def exXr : XR := { loaded := true, xattrStart := 0, xattrEnd := 35, numIds := 0, idBlockStarts := [] }
def exS : Readers := fun k => if k = 1 then (seek true exKv toyUnc (fresh 0 35) 0 11).2 else fresh 0 35
theorem h35 : (35 : Nat) ≤ NONE := by decide
theorem exSCoh : ∀ k, Coherent exKv toyUnc (exS k) := by
  intro k; unfold exS; split
  · exact coherent_seek _ _ toyUnc_ok _ (coherent_init _ _ _ _ h35) _ _
  · exact coherent_init _ _ _ _ h35
example := xattr_desc_history_independent exKv toyUnc toyUnc_ok (fun _ => (0,35)) (fun _ => h35) (fun _ => [.seek 0 11, .read 100]) exXr 0
example := xattr_set_history_independent exKv toyUnc toyUnc_ok (fun _ => (0,35)) (fun _ => h35) (fun _ => [.seek 0 11, .read 100]) exXr 0
example := xattr_walk_history_independent exKv toyUnc toyUnc_ok (fun _ => (0,35)) (fun _ => h35) (fun _ => [.seek 0 11, .read 100]) exXr ⟨6, 2, 0⟩ 2
#eval match (exec true exKv toyUnc (exXr.seekKvP ⟨6, 2, 0⟩ (exXr.readPairsP 2 [])) (usedFam exKv toyUnc (fun _ => (0,35)) (fun _ => [.seek 0 11, .read 100]))).1 with | .ok l => some l | .error _ => none
example := ool_position_restored (β := Nat) exKv toyUnc toyUnc_ok exXr 0x100 (by decide) exS exSCoh [0x76, 0x76] (by decide +kernel)
