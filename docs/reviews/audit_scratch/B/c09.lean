import Sqfs.Props.C09
open Sqfs Sqfs.C09 Sqfs.Pool List

theorem some_of_isSome {α} (x : Option α) (h : x.isSome = true) : ∃ a, x = some a := Option.isSome_iff_exists.1 h

abbrev cfgOk : Cfg := ⟨true, fun _ => 0⟩
abbrev cfgF : Cfg := ⟨true, fun d => if d = 0 then -5 else 0⟩
-- schedule A: 2 workers, 2 items, everything dequeued
abbrev schA : List Choice := [.main (.call (.submit 7)), .main (.cont false), .main (.call (.submit 9)), .main (.cont false),
       .worker 0 false, .worker 1 false, .worker 1 false, .worker 1 false, .worker 0 false, .worker 0 false,
       .main (.call .dequeue), .main (.cont false), .main (.call .dequeue), .main (.cont false)]
abbrev sA := run cfgOk (init 2) schA
-- schedule B: two workers both hold an item
abbrev schB : List Choice := [.main (.call (.submit 7)), .main (.cont false), .main (.call (.submit 9)), .main (.cont false),
       .worker 0 false, .worker 1 false]
abbrev sB := run cfgOk (init 2) schB
-- D1 schedule
abbrev schD : List Choice := [.main (.call (.submit 0)), .main (.cont false), .main (.call (.submit 1)), .main (.cont false),
       .worker 0 false, .worker 0 false, .worker 0 false,
       .main (.call .dequeue), .main (.cont false), .main (.call .dequeue)]
abbrev sD := run cfgF (init 1) schD
abbrev schW : List Choice := [.main (.call (.submit 3)), .main (.cont false), .worker 1 false, .main (.call .dequeue), .main (.cont false)]
abbrev sW := run cfgOk (init 2) schW

example := inv_init 2
example : True := by
  obtain ⟨s', h⟩ := some_of_isSome (step cfgOk sB (.worker 0 false)) (by decide)
  have := inv_step cfgOk (.worker 0 false) (inv_reachable (run_reachable cfgOk 2 schB)) h
  have := ctx_owner (.worker 0 false) h
  trivial
example := fifo (run_reachable cfgOk 2 schA)
example := fifo_run cfgOk 2 schA
example := at_most_once (run_reachable cfgOk 2 schA)
example := returned_at_most_once (run_reachable cfgOk 2 schA) 1 (by decide)
example := no_item_lost (run_reachable cfgOk 2 schB) 1 (by decide)
example := exactly_once (run_reachable cfgOk 2 schA) (by decide)
example : sB.workers = [.working ⟨0, 7⟩, .working ⟨1, 9⟩] := by decide
example := ctx_exclusive (run_reachable cfgOk 2 schB) 0 1 (.working ⟨0, 7⟩) (.working ⟨1, 9⟩) (by decide) (by decide) (by decide)
example := (no_lost_wakeup (run_reachable cfgOk 2 schW)).2 (by decide)
example := no_deadlock (cfg := cfgF) rfl (by decide) (run_reachable cfgF 1 schD) (by decide)
example := no_deadlock (cfg := cfgOk) rfl (by decide) (run_reachable cfgOk 2 schW) (by decide)
example := no_deadlock_flag (cfg := cfgF) rfl (by decide) (run_reachable cfgF 1 schD)
-- strict_reachable
example : ReachableStrict cfgOk 2 (run cfgOk (init 2) [.main (.call (.submit 3))]) :=
  .step (.main (.call (.submit 3))) .init (by decide)
example := strict_reachable (ReachableStrict.step (cfg := cfgOk) (n := 2) (.main (.call (.submit 3))) .init (s' := run cfgOk (init 2) [.main (.call (.submit 3))]) (by decide))
-- api_returns
abbrev pre : List Choice := [.main (.call (.submit 3)), .main (.cont false), .main (.call .dequeue), .main (.cont false)]
theorem stays : StaysInCall cfgOk (run cfgOk (init 2) pre) [.worker 1 false, .worker 1 false]
      (run cfgOk (init 2) (pre ++ [.worker 1 false, .worker 1 false])) :=
   .cons (s1 := run cfgOk (init 2) (pre ++ [.worker 1 false]))
     (by decide) (by decide) (.cons (by decide) (by decide) (.nil _))
example := api_returns (cfg := cfgOk) rfl (by decide) (run_reachable cfgOk 2 pre) (by decide) stays
#eval (mu (run cfgOk (init 2) pre), mu (run cfgOk (init 2) (pre ++ [.worker 1 false, .worker 1 false])))
-- failure
example := failure_recorded (run_reachable cfgF 1 schD)
example : sD.status = -5 := by decide
example : True := by
  obtain ⟨s', h⟩ := some_of_isSome (step cfgF sD (.main (.cont false))) (by decide)
  have h1 := failure_sticky (.main (.cont false)) h (by decide)
  have h2 := failure_reported_dequeue (cfg := cfgF) rfl (run_reachable cfgF 1 schD) (by decide) false (Or.inl (by decide)) h
  trivial
-- failure_reported_submit : state at submitLock with status≠0
abbrev schD2 : List Choice := [.main (.call (.submit 0)), .main (.cont false), .worker 0 false, .worker 0 false, .worker 0 false, .main (.call (.submit 1))]
example : (run cfgF (init 1) schD2).status = -5 ∧ (run cfgF (init 1) schD2).main = .submitLock 1 := by decide
example : True := by
  obtain ⟨s', h⟩ := some_of_isSome (step cfgF (run cfgF (init 1) schD2) (.main (.cont false))) (by decide)
  have h1 := failure_reported_submit (d := 1) (by decide) h
  trivial
abbrev schD3 : List Choice := [.main (.call (.submit 0)), .main (.cont false), .worker 0 false, .worker 0 false, .worker 0 false, .main (.call .getStatus)]
example : True := by
  obtain ⟨s', h⟩ := some_of_isSome (step cfgF (run cfgF (init 1) schD3) (.main (.cont false))) (by decide)
  have h1 := failure_reported_get_status (by decide) h
  trivial
theorem mainA : sA.main = .idle := by decide
example := healthy_status_zero (cfg := cfgOk) (fun _ => rfl) (run_reachable cfgOk 2 schA) (by rw [mainA]; exact fun h => h)
-- dequeue_null_only_if: the D1 state's next step returns NULL
example : True := by
  obtain ⟨s', h⟩ := some_of_isSome (step cfgF sD (.main (.cont false))) (by decide)
  have hr : ((step cfgF sD (.main (.cont false))).map (fun t => decide (t.rets = sD.rets ++ [.deq none]))) = some true := by decide
  rw [h] at hr; simp at hr
  have := dequeue_null_only_if (.main (.cont false)) h hr
  trivial
example := refines_serial (cfg := cfgOk) (fun _ => rfl) (run_reachable cfgOk 2 schA) (Or.inl (by decide))
example := refines_serial_prefix (cfg := cfgOk) (fun _ => rfl) (run_reachable cfgOk 2 schW)
-- extended
abbrev xsch : List XChoice := [.setPtr 0 11, .base (.main (.cont false)), .setPtr 1 22, .base (.main (.cont false)),
       .base (.main (.call (.submit 5))), .base (.main (.cont false)),
       .base (.main (.call (.submit 6))), .base (.main (.cont false)),
       .base (.worker 0 false), .setPtr 0 33, .base (.worker 1 false), .base (.main (.cont false))]
abbrev xsE := xrun cfgOk (xinit 2) xsch
example := x_projects (xrun_reachable cfgOk 2 xsch)
theorem xlog : xsE.log = [.setPtr 0 11, .setPtr 1 22, .enter 0 11 5, .setPtr 0 33, .enter 1 22 6] := by decide
example := ctx_exclusive_users (fun p => if p = 22 then 1 else 0) (xrun_reachable cfgOk 2 xsch)
  (by intro i p h hp; rw [xlog] at h; simp at h; rcases h with ⟨rfl, rfl⟩ | ⟨rfl, rfl⟩ | ⟨rfl, rfl⟩ <;> simp)
  0 1 11 22 (by decide) (by decide) (by decide) (by decide)
-- ctx_read_at_entry
abbrev xsch2 : List XChoice := xsch.take 8
example : True := by
  obtain ⟨xs', h⟩ := some_of_isSome (xstep cfgOk (xrun cfgOk (xinit 2) xsch2) (.base (.worker 0 false))) (by decide)
  have hw : ((xstep cfgOk (xrun cfgOk (xinit 2) xsch2) (.base (.worker 0 false))).map (fun t => decide (t.base.workers[0]? = some (.working ⟨0,5⟩)))) = some true := by decide
  rw [h] at hw; simp at hw
  have := ctx_read_at_entry (xrun_reachable cfgOk 2 xsch2) 0 false ⟨0,5⟩ h (by
    have hw0 : (xrun cfgOk (xinit 2) xsch2).base.workers[0]? = some .start := by decide
    intro it'; rw [hw0]; simp) hw
  trivial
example := set_worker_ptr_returns cfgOk (xrun cfgOk (xinit 2) [.setPtr 0 11]) 0 11 (by decide)
example := submit_oom cfgOk (xinit 1) 4 (by decide) (by decide)
example := x_no_deadlock (cfg := cfgOk) rfl (by decide) (xrun_reachable cfgOk 2 [.setPtr 0 11]) (by decide)
example := x_no_deadlock (cfg := cfgOk) rfl (by decide) (xrun_reachable cfgOk 2 (xsch ++ [.base (.main (.call .dequeue)), .base (.main (.cont false))])) (by decide)
example := x_no_deadlock_flag (cfg := cfgOk) rfl (by decide) (xrun_reachable cfgOk 2 xsch)
-- fine
abbrev fsch : List Choice := [.worker 0 false, .worker 0 false, .main (.call .destroy), .main (.cont false), .main (.cont false), .worker 0 false, .worker 0 false]
example := fine_refines_coarse (frun_reachable cfgOk 1 fsch)
abbrev fsch2 : List Choice := [.worker 0 false, .worker 0 false, .main (.call .destroy), .main (.cont false)]
#eval (frun cfgOk (finit 1) fsch2).fm.isLocked
example := fine_mutex (frun_reachable cfgOk 1 fsch2) (by decide) 0 _ rfl
example := fine_safety (frun_reachable cfgOk 1 fsch)
example := fine_no_deadlock (cfg := cfgOk) rfl (by decide) (frun_reachable cfgOk 1 fsch2) (by decide)

#print axioms inv_init
#print axioms inv_step
#print axioms inv_reachable
#print axioms run_reachable
#print axioms strict_reachable
#print axioms fifo
#print axioms fifo_run
#print axioms at_most_once
#print axioms returned_at_most_once
#print axioms no_item_lost
#print axioms exactly_once
#print axioms ctx_exclusive
#print axioms ctx_owner
#print axioms no_lost_wakeup
#print axioms no_deadlock
#print axioms no_deadlock_flag
#print axioms api_returns
#print axioms failure_recorded
#print axioms failure_sticky
#print axioms failure_reported_submit
#print axioms failure_reported_get_status
#print axioms failure_reported_dequeue
#print axioms healthy_status_zero
#print axioms dequeue_null_only_if
#print axioms refines_serial
#print axioms refines_serial_prefix
#print axioms x_projects
#print axioms xrun_reachable
#print axioms ctx_exclusive_users
#print axioms ctx_read_at_entry
#print axioms set_worker_ptr_returns
#print axioms submit_oom
#print axioms x_no_deadlock
#print axioms x_no_deadlock_flag
#print axioms fine_refines_coarse
#print axioms frun_reachable
#print axioms fine_mutex
#print axioms fine_safety
#print axioms fine_no_deadlock
