import Sqfs.Props.C07
open Sqfs Sqfs.C07 Sqfs.HardLink Sqfs.ParseTotal Sqfs.IoLoops Sqfs.C07Lines

def g1 : Graph := [.dir, .other, .hlink (.found 1), .hlink (.found 4), .hlink (.found 3), .hlink (.found 3), .hlink (.fail .ENOENT)]
theorem g1wf : WF g1 := by
  intro i j h
  unfold Step at h
  match i, h with
  | 0, h => cases h
  | 1, h => cases h
  | 2, h => cases h; decide
  | 3, h => cases h; decide
  | 4, h => cases h; decide
  | 5, h => cases h; decide
  | 6, h => cases h
  | n + 7, h => simp [g1] at h
-- instantiate
example := resolve_links_terminates g1 [5,2,6] (fun _ => 1)
def g2 : Graph := [.dir, .other, .hlink (.found 1), .hlink (.found 2)]
example : resolveAllFix g2 4 (St.init fun _ => 1) [3,2] = resolveAllFix g2 4 (St.init fun _ => 1) [3,2] := rfl
#eval (resolveAllFix g2 4 (St.init fun _ => 1) [3,2]).view [3,2,1]
#eval (resolveAllFix g1 8 (St.init fun _ => 1) [2,3,4,5,6]).view [3,2,1]
-- the err branch of resolve_links_exact: cnt is existential. Show EMLINK is admitted by the spec for any link ending at a file
example (g : Graph) (n t : Nat) (h : EndsAt g n t) (ht : g[t]? = some .other) : ∃ cnt, Expected g cnt n (none, some .EMLINK) :=
  ⟨fun _ => linkCountMax, Or.inr ⟨t, h, ht, rfl⟩⟩
example := resolve_links_exact g1 g1wf [2,3,4,5,6] (by
  intro k tg h
  match k, h with
  | 0, h => cases h
  | 1, h => cases h
  | 2, h => simp
  | 3, h => simp
  | 4, h => simp
  | 5, h => simp
  | 6, h => simp
  | n+7, h => simp [g1] at h) (by decide) (fun _ => 1)
example : True := by
  cases h : resolveAllFix g2 4 (St.init fun _ => 1) [3,2] with
  | ok st => have := resolve_ok_targets g2 4 [3,2] (fun _ => 1) st h; trivial
  | _ => have hv : (resolveAllFix g2 4 (St.init fun _ => 1) [3,2]).view [3,2,1] = .ok [some 1, some 1, none] [1, 1, 3] := by decide
         rw [h] at hv; cases hv
def tr : Tree.T := [⟨0, [], .dir, true, [], 2⟩, ⟨0, [98], .other, false, [], 1⟩, ⟨0, [99], .hlink, false, [98], 1⟩, ⟨0, [97], .hlink, false, [99], 1⟩, ⟨0, [100], .hlink, false, [100], 1⟩]
#eval (Tree.toGraph tr, Tree.links tr)
example := resolve_tree_exact tr (by decide) (fun _ => 1)
#eval (resolveAllFix (Tree.toGraph tr) ((Tree.links tr).length + 2) (St.init fun _ => 1) (Tree.links tr)).view [1,2,3,4]
example := specClass_sound g1 g1wf 5 (by decide)
example := chain_fates_exclusive g1 5
-- parsers
example := read_number_in_bounds [48, 48, 48, 49, 50, 51, 52, 0] 0 8 (by decide) (by decide)
example := read_octal_no_wrap [48, 48, 48, 49, 50, 51, 52, 0] 0 8 668 (by decide)
example := parse_uint_in_bounds_len 10 [49, 50, 51, 44, 0] 0 4 true 0 0 (by decide)
example := parse_uint_in_bounds_nul 10 [49, 50, 51, 44, 0] 0 4 true 0 0 (by decide) (by decide)
example := (parse_int_in_bounds [45, 50, 51, 44, 0] 0 true).1 4 (by decide)
example := (parse_int_in_bounds [45, 50, 51, 44, 0] 0 true).2 4 (by decide) (by decide)
example := hex_decode_bounds [65, 66, 48, 49] 0 4 2 (by decide)
#eval hexDecode [65, 66, 48, 49] 0 4 2 []
example := base64_decode_bounds [81, 85, 74, 68] 0 4 3 (by decide)
example := split_line_total [97, 32, 34, 98, 32, 99, 34, 0] 7 [32, 9] (by decide)
example := read_pax_header_total [49,50,32,97,61,98,10]
#eval readPaxHeader ("18 path=abcdefghi\n".toUTF8.toList)
#eval readPaxHeader ("18 path=abcdefghi\n12 size=12\n".toUTF8.toList)
example := sparse_map_new_bounds ("1\n0\n5\n".toUTF8.toList ++ List.replicate 600 0) 512
#eval readGnuNewSparse ("1\n0\n5\n".toUTF8.toList ++ List.replicate 600 0) 512
def hdr512 : List UInt8 := List.replicate 512 48
set_option maxRecDepth 100000 in
theorem hdr512len : hdr512.length = Sqfs.Consts.sizeofTarHeader := by unfold hdr512; rw [List.length_replicate]; rfl
set_option maxRecDepth 100000 in
example : (readGnuOldSparse hdr512 [1,2,3]).safe := sparse_map_old_bounds hdr512 [1,2,3] hdr512len
--  [1,2,3] (List.length_replicate (n := 512) (a := (48:UInt8)))
#eval readGnuOldSparse (List.replicate 512 48) []
example := decode_filename_bounds [97, 92, 110, 0] 3 (by decide)
#eval decodeFilename [97, 92, 110, 0]
example := xattr_decode_bounds [34, 97, 92, 49, 48, 49, 92, 92, 34, 0] (by decide) (by decide)
example := read_header_total rhExample
example := read_lines_chunking_independent 4 (by decide) 5 [32, 97, 98, 99, 100, 101, 13, 10, 10, 120] ⟨[.part 0, .eintr, .part 2], []⟩ (by decide)
example := expected_unique g1 (fun _ => 1) 2 (some 1, none) (some 1, none)
#print axioms resolve_links_terminates
#print axioms resolve_ok_targets
#print axioms resolve_links_exact
#print axioms resolve_tree_exact
#print axioms expected_unique
#print axioms chain_fates_exclusive
#print axioms specClass_sound
#print axioms read_number_in_bounds
#print axioms read_octal_no_wrap
#print axioms parse_uint_in_bounds_len
#print axioms parse_uint_in_bounds_nul
#print axioms parse_int_in_bounds
#print axioms hex_decode_bounds
#print axioms base64_decode_bounds
#print axioms split_line_total
#print axioms read_pax_header_total
#print axioms sparse_map_new_bounds
#print axioms sparse_map_old_bounds
#print axioms decode_filename_bounds
#print axioms xattr_decode_bounds
#print axioms read_header_total
#print axioms read_lines_chunking_independent
